"""fsrc -- an interpreter for the Fortran subset of fsic's generated module, over symx proxies.

`fsic.fortran.build_fortran_definition()` emits one file: three modules of integer constants (`structure`,
`failure_codes`, `error_codes`) and the subroutines `evaluate`, `solve_t` and `solve`.  `load(source)` parses THAT TEXT
(regenerated from /repo on every run) into statement trees; `Module.call(name, args)` executes a subroutine on values
that may be symx proxies (SFloat cells, SInt options): every `if` on a symbolic condition forks the symx explorer, array
expressions are evaluated element by element, vector subscripts and whole-array assignments follow the Fortran rules
(1-based, column-major is irrelevant here because storage is never reinterpreted).

What is modelled: integer / real(8) / logical scalars and explicit-shape arrays of rank 1 and 2; assignment to scalars,
elements, whole arrays and sections with scalar or vector subscripts; if / else if / else; counted do loops with cycle
and exit (Fortran semantics: the do variable is one past the last value after normal completion); return; call of
another subroutine of the file; + - * / ** unary minus, comparisons (both spellings), .not. .and. .or.; intrinsics abs,
any, all, size, exp, log, sqrt, max, min, ieee_is_finite, real, dble.  An out-of-bounds subscript raises FBounds (the
compiled code would read or write a neighbouring element: undefined behaviour by the standard; callers decide what to
make of it).  Anything else in the text raises FUnsupported: the check then ends inconclusive, it never guesses.
"""
from __future__ import annotations

import math
import re
from typing import Any, Dict, List, Optional, Tuple


class FUnsupported(Exception):
    pass


class FBounds(Exception):
    pass


# ---------------------------------------------------------------------------------------------------------
# lexing / expression parsing
TOKEN = re.compile(r'''
    (?P<real>(?:\d+\.\d*|\.\d+|\d+)(?:[de][+-]?\d+)|\d+\.\d*|\.\d+) |
    (?P<int>\d+) |
    (?P<dotop>\.(?:not|and|or|true|false|lt|le|gt|ge|eq|ne)\.) |
    (?P<name>[a-z_][a-z0-9_]*) |
    (?P<op>\*\*|==|/=|<=|>=|\(/|/\)|[-+*/<>(),=:\[\]]) |
    (?P<ws>\s+)
''', re.X)


def tokenize(s: str) -> List[Tuple[str, str]]:
    out, i = [], 0
    while i < len(s):
        m = TOKEN.match(s, i)
        if not m:
            raise FUnsupported(f'cannot tokenise {s[i:i + 20]!r}')
        i = m.end()
        k = m.lastgroup
        if k != 'ws':
            out.append((k, m.group(k)))
    return out


BINPREC = {'.or.': 1, '.and.': 2, '==': 4, '/=': 4, '<': 4, '<=': 4, '>': 4, '>=': 4, '.eq.': 4, '.ne.': 4, '.lt.': 4, '.le.': 4, '.gt.': 4,
           '.ge.': 4, '+': 5, '-': 5, '*': 6, '/': 6, '**': 8}
CANON = {'.eq.': '==', '.ne.': '/=', '.lt.': '<', '.le.': '<=', '.gt.': '>', '.ge.': '>='}


class P:
    def __init__(self, toks):
        self.t, self.i = toks, 0

    def peek(self):
        return self.t[self.i] if self.i < len(self.t) else ('end', '')

    def next(self):
        x = self.peek()
        self.i += 1
        return x

    def expect(self, v):
        x = self.next()
        if x[1] != v:
            raise FUnsupported(f'expected {v!r}, found {x[1]!r}')

    def expr(self, prec=0):
        left = self.unary()
        while True:
            k, v = self.peek()
            if v in BINPREC and BINPREC[v] >= prec and k in ('op', 'dotop'):
                p = BINPREC[v]
                self.next()
                right = self.expr(p if v == '**' else p + 1)   # ** is right-associative
                left = ('bin', CANON.get(v, v), left, right)
            else:
                return left

    def unary(self):
        k, v = self.peek()
        if v == '-':
            self.next()
            return ('neg', self.expr(7))    # binds tighter than * but looser than **
        if v == '+':
            self.next()
            return self.expr(7)
        if v == '.not.':
            self.next()
            return ('not', self.expr(3))
        return self.primary()

    def primary(self):
        k, v = self.next()
        if k == 'real':
            return ('real', float(v.replace('d', 'e')))
        if k == 'int':
            return ('int', int(v))
        if v == '.true.':
            return ('logical', True)
        if v == '.false.':
            return ('logical', False)
        if v == '(':
            e = self.expr()
            self.expect(')')
            return e
        if v in ('(/', '['):
            close = '/)' if v == '(/' else ']'
            items = []
            if self.peek()[1] != close:
                items.append(self.expr())
                while self.peek()[1] == ',':
                    self.next()
                    items.append(self.expr())
            self.expect(close)
            return ('array', items)
        if k == 'name':
            if self.peek()[1] == '(':
                self.next()
                args = []
                if self.peek()[1] != ')':
                    args.append(self.subscript())
                    while self.peek()[1] == ',':
                        self.next()
                        args.append(self.subscript())
                self.expect(')')
                return ('ref', v, args)
            return ('name', v)
        raise FUnsupported(f'unexpected token {v!r}')

    def subscript(self):
        if self.peek()[1] == ':':
            self.next()
            if self.peek()[1] in (',', ')'):
                return ('slice', None, None)
            return ('slice', None, self.expr())
        e = self.expr()
        if self.peek()[1] == ':':
            self.next()
            if self.peek()[1] in (',', ')'):
                return ('slice', e, None)
            return ('slice', e, self.expr())
        return e


def parse_expr(s: str):
    p = P(tokenize(s))
    e = p.expr()
    if p.peek()[0] != 'end':
        raise FUnsupported(f'trailing tokens in {s!r}')
    return e


# ---------------------------------------------------------------------------------------------------------
# source -> modules / subroutines / statement trees
def _logical_lines(source: str) -> List[str]:
    lines = []
    buf = ''
    for raw in source.splitlines():
        line = raw.split('!', 1)[0].rstrip().lower()
        if not line.strip():
            continue
        s = line.strip()
        if s.startswith('&'):
            s = s[1:].lstrip()
        if s.endswith('&'):
            buf += s[:-1].rstrip() + ' '
            continue
        lines.append(buf + s)
        buf = ''
    if buf:
        lines.append(buf)
    return lines


DECL = re.compile(r'^(integer|real\s*\(\s*8\s*\)|real\s*\(\s*kind\s*=\s*8\s*\)|double precision|logical)(?=[\s,:])(.*?)::(.*)$')


def _split_top(s: str) -> List[str]:
    out, depth, cur = [], 0, ''
    i = 0
    while i < len(s):
        c = s[i]
        if s.startswith('(/', i):
            depth += 1
            cur += '(/'
            i += 2
            continue
        if s.startswith('/)', i):
            depth -= 1
            cur += '/)'
            i += 2
            continue
        if c in '([':
            depth += 1
        elif c in ')]':
            depth -= 1
        if c == ',' and depth == 0:
            out.append(cur.strip())
            cur = ''
        else:
            cur += c
        i += 1
    if cur.strip():
        out.append(cur.strip())
    return out


class Sub:
    def __init__(self, name: str, params: List[str]):
        self.name, self.params = name, params
        self.decls: Dict[str, Tuple[str, Optional[List[Any]]]] = {}   # name -> (type, dims exprs or None)
        self.body: List[Any] = []


class Module:
    def __init__(self) -> None:
        self.consts: Dict[str, Any] = {}
        self.subs: Dict[str, Sub] = {}
        self.calls: Dict[str, int] = {}

    # -- execution ------------------------------------------------------------------------------------
    def call(self, name: str, args: Dict[str, Any]) -> Dict[str, Any]:
        """Run subroutine `name`; `args` maps every dummy argument to a value (FArr for arrays).  Returns the frame."""
        sub = self.subs[name]
        self.calls[name] = self.calls.get(name, 0) + 1
        fr: Dict[str, Any] = dict(self.consts)
        for p in sub.params:
            if p not in args:
                raise FUnsupported(f'{name}: argument {p} not supplied')
            fr[p] = args[p]
        for n, (ty, dims) in sub.decls.items():
            if n in sub.params:
                continue
            if dims is None:
                fr[n] = None
            else:
                shape = [int(Interp(self, fr).ev(d)) for d in dims]
                fr[n] = FArr.full(shape, None)
        try:
            Interp(self, fr).run(sub.body)
        except _Return:
            pass
        return fr


def load(source: str) -> Module:
    mod = Module()
    lines = _logical_lines(source)
    i = 0
    stack: List[List[Any]] = []
    cur_sub: Optional[Sub] = None
    in_module = False
    while i < len(lines):
        ln = lines[i]
        i += 1
        m = re.match(r'^module\s+([a-z_0-9]+)$', ln)
        if m and cur_sub is None:
            in_module = True
            continue
        if re.match(r'^end\s*module\b', ln):
            in_module = False
            continue
        m = re.match(r'^subroutine\s+([a-z_0-9]+)\s*\((.*)\)$', ln)
        if m:
            cur_sub = Sub(m.group(1), [a.strip() for a in m.group(2).split(',') if a.strip()])
            stack = [cur_sub.body]
            continue
        if re.match(r'^end\s*subroutine\b', ln):
            if len(stack) != 1:
                raise FUnsupported(f'unbalanced blocks in {cur_sub.name}')
            mod.subs[cur_sub.name] = cur_sub
            cur_sub = None
            continue
        if ln.startswith('use ') or ln.startswith('use,') or ln == 'implicit none' or ln == 'contains':
            continue
        d = DECL.match(ln)
        if d:
            ty = 'integer' if d.group(1) == 'integer' else 'logical' if d.group(1) == 'logical' else 'real'
            attrs, names = d.group(2), d.group(3)
            dm = re.search(r'dimension\s*\((.*?)\)\s*(?:,|$)', attrs)
            dims0 = [parse_expr(x) for x in _split_top(dm.group(1))] if dm else None
            for item in _split_top(names):
                if '=' in item:
                    nm, init = item.split('=', 1)
                    nm = nm.strip()
                else:
                    nm, init = item.strip(), None
                dims = dims0
                am = re.match(r'^([a-z_0-9]+)\s*\((.*)\)$', nm)
                if am:
                    nm, dims = am.group(1), [parse_expr(x) for x in _split_top(am.group(2))]
                if cur_sub is None:
                    if not in_module:
                        raise FUnsupported(f'declaration outside a module or subroutine: {ln}')
                    if init is not None:
                        v = Interp(mod, dict(mod.consts)).ev(parse_expr(init.strip()))
                        mod.consts[nm] = FArr.of_list(v) if isinstance(v, list) else v
                    elif dims is not None:
                        mod.consts[nm] = FArr.full([int(Interp(mod, dict(mod.consts)).ev(x)) for x in dims], 0)
                    else:
                        mod.consts[nm] = None
                else:
                    if init is not None:
                        raise FUnsupported(f'initialised local variable (implies SAVE): {ln}')
                    cur_sub.decls[nm] = (ty, dims)
            continue
        if cur_sub is None:
            raise FUnsupported(f'statement outside a subroutine: {ln}')
        # executable statements
        m = re.match(r'^if\s*\((.*)\)\s*then$', ln)
        if m:
            node = ['if', [(parse_expr(m.group(1)), [])], None]
            stack[-1].append(node)
            stack.append(node[1][-1][1])
            continue
        m = re.match(r'^else\s*if\s*\((.*)\)\s*then$', ln)
        if m:
            stack.pop()
            node = stack[-1][-1]
            node[1].append((parse_expr(m.group(1)), []))
            stack.append(node[1][-1][1])
            continue
        if ln == 'else':
            stack.pop()
            node = stack[-1][-1]
            node[2] = []
            stack.append(node[2])
            continue
        if re.match(r'^end\s*if$', ln):
            stack.pop()
            continue
        m = re.match(r'^do\s+([a-z_0-9]+)\s*=\s*(.*)$', ln)
        if m:
            parts = _split_top(m.group(2))
            if len(parts) not in (2, 3):
                raise FUnsupported(f'do statement: {ln}')
            node = ['do', m.group(1), [parse_expr(x) for x in parts], []]
            stack[-1].append(node)
            stack.append(node[3])
            continue
        if re.match(r'^end\s*do$', ln):
            stack.pop()
            continue
        stack[-1].append(_simple(ln))
    return mod


def _simple(ln: str):
    if ln in ('cycle', 'exit', 'return'):
        return [ln]
    m = re.match(r'^call\s+([a-z_0-9]+)\s*\((.*)\)$', ln)
    if m:
        return ['call', m.group(1), [parse_expr(a) for a in _split_top(m.group(2))]]
    m = re.match(r'^if\s*\((.*)\)\s*(.+)$', ln)
    if m and not m.group(2).endswith('then'):
        # one-line if: find the matching parenthesis
        depth, j = 0, ln.index('(')
        for k in range(j, len(ln)):
            depth += ln[k] == '('
            depth -= ln[k] == ')'
            if depth == 0:
                return ['if', [(parse_expr(ln[j + 1:k]), [_simple(ln[k + 1:].strip())])], None]
    # assignment: split at the top-level '=' that is not part of ==, /=, <=, >=
    depth = 0
    for k, c in enumerate(ln):
        if c in '([':
            depth += 1
        elif c in ')]':
            depth -= 1
        elif c == '=' and depth == 0 and ln[k - 1] not in '=/<>' and ln[k + 1:k + 2] != '=':
            return ['assign', parse_expr(ln[:k].strip()), parse_expr(ln[k + 1:].strip())]
    raise FUnsupported(f'statement not understood: {ln}')


# ---------------------------------------------------------------------------------------------------------
# values
class FArr:
    """Explicit-shape array, 1-based, rank 1 or 2; elements are Python / NumPy scalars or symx proxies."""

    def __init__(self, shape: List[int], data: List[Any]) -> None:
        self.shape, self.data = list(shape), data

    @classmethod
    def full(cls, shape, v):
        n = 1
        for s in shape:
            n *= max(int(s), 0)
        return cls([max(int(s), 0) for s in shape], [v] * n)

    @classmethod
    def of_list(cls, xs):
        return cls([len(xs)], list(xs))

    def _pos(self, idx: List[int]) -> int:
        if len(idx) != len(self.shape):
            raise FUnsupported(f'rank mismatch: {idx} into shape {self.shape}')
        for k, (i, n) in enumerate(zip(idx, self.shape)):
            if not (1 <= i <= n):
                raise FBounds(f'subscript {i} of dimension {k + 1} outside 1..{n}')
        return (idx[0] - 1) if len(idx) == 1 else (idx[0] - 1) + (idx[1] - 1) * self.shape[0]

    def get(self, idx):
        return self.data[self._pos(idx)]

    def set(self, idx, v):
        self.data[self._pos(idx)] = v

    def copy(self):
        return FArr(self.shape, list(self.data))

    def rows_cols(self):
        return self.shape[0], (self.shape[1] if len(self.shape) > 1 else 1)


class _Undef:
    """The value of a variable that was never defined (e.g. an intent(out) dummy the callee returned early from).  It may be
    COPIED (the real code copies whatever bits are there); using it in arithmetic, a comparison or a condition is
    reported as unsupported rather than guessed."""

    def __repr__(self) -> str:
        return '<undefined>'


UNDEF = _Undef()


class _Return(Exception):
    pass


class _Cycle(Exception):
    pass


class _Exit(Exception):
    pass


def _is_arr(x) -> bool:
    return isinstance(x, FArr)


def _ew(f, *xs):
    """Apply f element-wise over conformable operands (scalars broadcast)."""
    if any(x is UNDEF for x in xs):
        raise FUnsupported('an undefined value is used in an expression')
    arrs = [x for x in xs if _is_arr(x)]
    if not arrs:
        return f(*xs)
    shape = arrs[0].shape
    for a in arrs:
        if a.shape != shape:
            raise FUnsupported(f'non-conformable shapes {a.shape} vs {shape}')
    n = len(arrs[0].data)
    return FArr(shape, [f(*[(x.data[i] if _is_arr(x) else x) for x in xs]) for i in range(n)])


def _int(v) -> int:
    if isinstance(v, bool):
        raise FUnsupported('logical used as integer')
    return v.__index__() if hasattr(v, '__index__') else int(v)


class Interp:
    def __init__(self, mod: Module, frame: Dict[str, Any]) -> None:
        self.mod, self.fr = mod, frame

    # -- statements -----------------------------------------------------------------------------------
    def run(self, stmts: List[Any]) -> None:
        for s in stmts:
            k = s[0]
            if k == 'assign':
                self.assign(s[1], self.ev(s[2]))
            elif k == 'if':
                done = False
                for cond, block in s[1]:
                    if self.truth(self.ev(cond)):
                        self.run(block)
                        done = True
                        break
                if not done and s[2] is not None:
                    self.run(s[2])
            elif k == 'do':
                var, bounds, body = s[1], s[2], s[3]
                lo, hi = _int(self.ev(bounds[0])), _int(self.ev(bounds[1]))
                step = _int(self.ev(bounds[2])) if len(bounds) == 3 else 1
                if step == 0:
                    raise FUnsupported('zero do step')
                trips = max((hi - lo + step) // step, 0)
                v = lo
                self.fr[var] = v
                for _ in range(trips):
                    try:
                        self.run(body)
                    except _Cycle:
                        pass
                    except _Exit:
                        break
                    v += step
                    self.fr[var] = v
            elif k == 'call':
                self.call(s[1], s[2])
            elif k == 'return':
                raise _Return()
            elif k == 'cycle':
                raise _Cycle()
            elif k == 'exit':
                raise _Exit()
            else:
                raise FUnsupported(f'statement kind {k}')

    def call(self, name: str, arg_exprs: List[Any]) -> None:
        if name not in self.mod.subs:
            raise FUnsupported(f'call of unknown subroutine {name}')
        sub = self.mod.subs[name]
        if len(arg_exprs) != len(sub.params):
            raise FUnsupported(f'call {name}: {len(arg_exprs)} arguments for {len(sub.params)} parameters')
        args = {}
        back = []
        for p, e in zip(sub.params, arg_exprs):
            if e[0] == 'name':
                if e[1] not in self.fr:
                    raise FUnsupported(f'unknown name {e[1]}')
                v = self.fr[e[1]]            # a not-yet-defined actual argument is fine for an intent(out) dummy
                back.append((p, e[1]))
            else:
                v = self.ev(e)
            args[p] = v
        # pass-by-reference: arrays are shared objects; scalars are copied back after the call
        fr = self.mod.call(name, args)
        for p, nm in back:
            if not _is_arr(fr[p]):
                self.fr[nm] = fr[p]

    def truth(self, v) -> bool:
        if v is UNDEF:
            raise FUnsupported('an undefined value is used as a condition')
        if _is_arr(v):
            raise FUnsupported('array-valued condition')
        return bool(v)     # SBool forks here

    def assign(self, lhs, value) -> None:
        if lhs[0] == 'name':
            cur = self.fr.get(lhs[1])
            if _is_arr(cur):
                if _is_arr(value):
                    if value.shape != cur.shape:
                        raise FUnsupported(f'assignment of shape {value.shape} to {lhs[1]} of shape {cur.shape}')
                    cur.data[:] = list(value.data)
                else:
                    cur.data[:] = [value] * len(cur.data)
            else:
                if lhs[1] not in self.fr:
                    raise FUnsupported(f'assignment to undeclared {lhs[1]}')
                if _is_arr(value):
                    raise FUnsupported(f'array assigned to scalar {lhs[1]}')
                self.fr[lhs[1]] = value
            return
        if lhs[0] == 'ref':
            arr = self.fr.get(lhs[1])
            if not _is_arr(arr):
                raise FUnsupported(f'{lhs[1]} is not an array')
            idxs = self.index_lists(arr, lhs[2])
            cells = self.cross(idxs)
            if _is_arr(value):
                if len(value.data) != len(cells):
                    raise FUnsupported('section assignment with non-conformable right-hand side')
                vals = list(value.data)      # the right-hand side is evaluated completely before any element is stored
                for c, v in zip(cells, vals):
                    arr.set(c, v)
            else:
                for c in cells:
                    arr.set(c, value)
            return
        raise FUnsupported(f'assignment target {lhs[0]}')

    def index_lists(self, arr: FArr, subs: List[Any]):
        """Per dimension: (list of 1-based indices, is_scalar)."""
        out = []
        for d, s in enumerate(subs):
            if s[0] == 'slice':
                lo = 1 if s[1] is None else _int(self.ev(s[1]))
                hi = arr.shape[d] if s[2] is None else _int(self.ev(s[2]))
                out.append((list(range(lo, hi + 1)), False))
            else:
                v = self.ev(s)
                if _is_arr(v):
                    out.append(([_int(x) for x in v.data], False))
                else:
                    out.append(([_int(v)], True))
        return out

    @staticmethod
    def cross(idxs):
        if len(idxs) == 1:
            return [[i] for i in idxs[0][0]]
        return [[i, j] for j in idxs[1][0] for i in idxs[0][0]]    # column-major element order

    # -- expressions ----------------------------------------------------------------------------------
    def ev(self, e):
        k = e[0]
        if k in ('int', 'real', 'logical'):
            return e[1]
        if k == 'name':
            if e[1] not in self.fr:
                raise FUnsupported(f'unknown name {e[1]}')
            v = self.fr[e[1]]
            if v is None:
                return UNDEF
            return v
        if k == 'array':
            return [self.ev(x) for x in e[1]]
        if k == 'neg':
            return _ew(lambda a: -a, self.ev(e[1]))
        if k == 'not':
            return _ew(_not, self.ev(e[1]))
        if k == 'bin':
            return self.binop(e[1], self.ev(e[2]), self.ev(e[3]))
        if k == 'ref':
            v = self.fr.get(e[1])
            if _is_arr(v):
                idxs = self.index_lists(v, e[2])
                cells = self.cross(idxs)
                if all(sc for _, sc in idxs):
                    x = v.get(cells[0])
                    if x is None:
                        raise FUnsupported(f'{e[1]}{cells[0]} used before it is defined')
                    return x
                shape = [len(ix) for ix, sc in idxs if not sc]
                data = [v.get(c) for c in cells]
                if any(x is None for x in data):
                    raise FUnsupported(f'section of {e[1]} used before it is defined')
                return FArr(shape, data)
            return self.intrinsic(e[1], e[2])
        raise FUnsupported(f'expression kind {k}')

    def binop(self, op, a, b):
        if op == '+':
            return _ew(lambda x, y: x + y, a, b)
        if op == '-':
            return _ew(lambda x, y: x - y, a, b)
        if op == '*':
            return _ew(lambda x, y: x * y, a, b)
        if op == '/':
            return _ew(_div, a, b)
        if op == '**':
            return _ew(lambda x, y: x ** y, a, b)
        if op in ('<', '<=', '>', '>=', '==', '/='):
            f = {'<': lambda x, y: x < y, '<=': lambda x, y: x <= y, '>': lambda x, y: x > y, '>=': lambda x, y: x >= y,
                 '==': lambda x, y: x == y, '/=': lambda x, y: x != y}[op]
            return _ew(f, a, b)
        if op == '.and.':
            return _ew(_and, a, b)
        if op == '.or.':
            return _ew(_or, a, b)
        raise FUnsupported(f'operator {op}')

    def intrinsic(self, name: str, arg_exprs: List[Any]):
        args = [self.ev(a) for a in arg_exprs]
        if name == 'abs':
            return _ew(abs, args[0])
        if name in ('any', 'all'):
            xs = args[0].data if _is_arr(args[0]) else [args[0]]
            out: Any = (name == 'all')
            for x in xs:
                out = _and(out, x) if name == 'all' else _or(out, x)
            return out
        if name == 'size':
            if not _is_arr(args[0]):
                raise FUnsupported('size of a scalar')
            if len(args) == 2:
                return args[0].shape[_int(args[1]) - 1]
            n = 1
            for s in args[0].shape:
                n *= s
            return n
        if name == 'ieee_is_finite':
            return _ew(_isfinite, args[0])
        if name in ('exp', 'log', 'sqrt'):
            return _ew(lambda x: _fn1(name, x), args[0])
        if name in ('max', 'min'):
            return _ew(lambda *xs: _maxmin(name, xs), *args)
        if name in ('real', 'dble'):
            return _ew(lambda x: x if not isinstance(x, int) or isinstance(x, bool) else float(x), args[0])
        raise FUnsupported(f'function or array {name} not modelled')


def _div(x, y):
    if isinstance(x, int) and isinstance(y, int) and not isinstance(x, bool) and not isinstance(y, bool):
        if y == 0:
            raise FUnsupported('integer division by zero')
        q = abs(x) // abs(y)
        return q if (x >= 0) == (y >= 0) else -q     # Fortran integer division truncates towards zero
    if not hasattr(x, 't') and not hasattr(y, 't'):
        import numpy as np
        with np.errstate(all='ignore'):
            return float(np.float64(x) / np.float64(y))
    return x / y


def _not(a):
    return (not a) if isinstance(a, bool) else ~a


def _and(a, b):
    if isinstance(a, bool):
        return b if a else False
    if isinstance(b, bool):
        return a if b else False
    return a & b


def _or(a, b):
    if isinstance(a, bool):
        return True if a else b
    if isinstance(b, bool):
        return True if b else a
    return a | b


def _isfinite(x):
    if hasattr(x, 'isfinite'):
        return x.isfinite()
    return math.isfinite(x)


def _fn1(name, x):
    if hasattr(x, name):
        return getattr(x, name)()
    import numpy as np
    with np.errstate(all='ignore'):
        return float(getattr(np, name)(np.float64(x)))


def _maxmin(name, xs):
    out = xs[0]
    for y in xs[1:]:
        if hasattr(out, 't') or hasattr(y, 't'):
            import numpy as np
            out = (np.maximum if name == 'max' else np.minimum)(out, y)
        else:
            out = max(out, y) if name == 'max' else min(out, y)
    return out
