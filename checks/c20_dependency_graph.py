"""C20 -- the dependency graph tool reports exactly the dependencies the
equations have.

Per enumerated program: symbols_to_graph(symbols) concretely; each equation's
Symbol.code executed in isolation on symbolic series (cells, t, L).
 * node set / equation attributes / edge set equal the AST reference (concrete);
 * soundness (z3): every access on every path addresses t+k for an edge
   X[t+k] -> y, and for every (series, offset) WITHOUT an edge, replacing that
   cell by a fresh value leaves y's result z3-equal (non-interference, all data);
 * completeness (z3 paths): every edge's source is read on some feasible path.
"""
from __future__ import annotations

import random
import sys
import warnings
from typing import Any, Dict, List

import numpy as np
import z3

import fsic
import fsic.parser as fparser
import vlib
from checks.c01_generated_model import finish as c01_finish
from gram import Bin, Env, Eq, Layout, Num, RefError, Var, classify, deps, evaluation_order, interp, render
from gram.driver import add_stats, run_items
from gram.family import program_set, show
from gram.pipeline import _NS, MY_CON, MY_SYM, REF_FUNCS, _c_myexp, _myexp, install_user_functions, parse_and_build
from symx.core import Ctx, cur
from symx.values import F64, SFloat, SInt, fpval
from symx.zseries import ZSeries

T = fparser.Type


def node(name: str, off: int) -> str:
    return f'{name}[t]' if off == 0 else (f'{name}[t+{off}]' if off > 0 else f'{name}[t{off}]')


def _exec_code(code: str, series: Dict[str, Any], t: Any, concrete: bool = False):
    obj = _NS()
    for n, s in series.items():
        setattr(obj, '_' + n, s)
    ns = {'self': obj, 't': t, 'np': np, 'max': max, 'min': min, 'abs': abs, 'myexp': _c_myexp if concrete else _myexp, 'my': MY_CON if concrete else MY_SYM}
    with warnings.catch_warnings():
        warnings.simplefilter('ignore')
        exec(code, ns)  # noqa: S102 - one generated statement


def work(item) -> Dict[str, Any]:
    import time
    t0 = time.time()
    r = _work(item)
    r['wall_s'] = round(time.time() - t0, 2)
    return r


def _work(item) -> Dict[str, Any]:
    prog, twin = item
    install_user_functions()
    text = render(prog, Layout())
    out: Dict[str, Any] = {'prog': show(prog), 'layout': 'plain', 'bad': [], 'paths': 0, 'stats': {}, 'status': 'ok', 'program_level': 0}
    try:
        ref = classify(prog)
    except RefError:
        out['status'] = 'rejected_as_expected'
        return out
    pb = parse_and_build(text)
    if 'error' in pb:
        out['status'] = 'rejected'
        return out
    symbols = pb['symbols']
    from fsic.tools import symbols_to_graph
    G = symbols_to_graph(symbols)
    names = ref['names']
    lags, leads = ref['lags'], ref['leads']
    varlike = {node(n, k) for n in names for k in range(-lags - 1, leads + 2)}
    eqs = evaluation_order(prog)
    out['program_level'] += 1
    # nodes: one per left-hand side, carrying the normalised equation
    for eq in eqs:
        y = node(eq.target.name, eq.target.off)
        sym = next(s for s in symbols if s.name == eq.target.name)
        if y not in G.nodes or G.nodes[y].get('equation') != sym.equation:
            out['bad'].append({'what': f'node {y} missing or without its normalised equation', 'replayed': True, 'replay': {'text': text}})
            continue
        want = {node(n, k) for n, k in deps(eq)}
        if twin == 'drop_edge' and want:
            want = set(sorted(want)[1:])
        got = {x for x in G.predecessors(y) if x in varlike}
        if got != want:
            out['bad'].append({'what': f'edges into {y}: graph {sorted(got)} != right-hand-side terms {sorted(want)}', 'replayed': True,
                               'replay': {'text': text, 'graph': sorted(got), 'reference': sorted(want)}})
    lhs_nodes = {node(eq.target.name, eq.target.off) for eq in eqs}
    extra_eq_nodes = [n for n, d in G.nodes(data=True) if 'equation' in d and n not in lhs_nodes]
    if extra_eq_nodes:
        out['bad'].append({'what': f'nodes carrying an equation that are not left-hand sides: {extra_eq_nodes}', 'replayed': True, 'replay': {'text': text}})
    if out['bad']:
        return out

    # solver part, per equation in isolation
    for eq in eqs:
        y = node(eq.target.name, eq.target.off)
        sym = next(s for s in symbols if s.name == eq.target.name)
        edges = sorted({(x.split('[')[0], _off(x)) for x in G.predecessors(y) if x in varlike})
        quick = vlib.tier() == 'quick'
        ctx = Ctx(budget_s=25 if quick else 60, timeout_ms=10000 if quick else 20000)
        tz, Lz = z3.Int('t'), z3.Int('L')
        ctx.assume(Lz >= lags + leads + 1, 'L >= lags+leads+1')
        ctx.assume(z3.And(tz >= lags, tz <= Lz - 1 - leads), 'feasible period')
        non_edges = [(n, k) for n in names for k in range(-lags, leads + 1) if (n, k) not in edges and not (n == eq.target.name and k == eq.target.off)]
        rng = random.Random(hash(show(prog)) & 0xffff)
        n_probe = 3 if vlib.tier() == 'quick' else 6
        probe = non_edges if len(non_edges) <= n_probe else rng.sample(non_edges, n_probe)
        read_edges_seen = set()
        ref_edges_seen = set()

        def fn():
            t = SInt(tz)
            log: list = []
            ser = {n: ZSeries(n, Lz, log) for n in names}
            _exec_code(sym.code, ser, t)
            res = ser[eq.target.name].arr
            bad, terms = [], []
            c = cur()
            seen = set()
            for k_, nm, it, eff in log:
                if k_ == 'w':
                    continue
                ks = [k for (n, k) in edges if n == nm]
                hit = [k for k in ks if c._check(it != tz + k) == 'unsat']
                if not hit:
                    bad.append(f'evaluating {y} reads {nm} at an offset with no edge into {y}')
                    terms.append(z3.BoolVal(True))
                for k in hit:
                    seen.add((nm, k))
            # non-interference for (series, offset) pairs without an edge
            for (nm, k) in probe:
                log2: list = []
                ser2 = {n: ZSeries(n, Lz, log2) for n in names}
                fresh = z3.FP(f'fresh_{nm}_{k}', F64)
                ser2[nm].arr = z3.Store(ser2[nm].arr, tz + k, fresh)
                _exec_code(sym.code, ser2, t)
                a = z3.Select(res, tz + eq.target.off)
                b = z3.Select(ser2[eq.target.name].arr, tz + eq.target.off)
                if not a.eq(b) and c._check(a != b) == 'sat':
                    bad.append(f'{nm}[t{k:+d}] has no edge into {y} but perturbing it changes {y}')
                    terms.append(a != b)
            # what the script itself (AST reference) reads on this path: a term in a branch that no data can reach
            # (e.g. `a if X > X else b`) is dead in the script, not a defect of the graph
            rlog: list = []
            rser = {n: ZSeries(n, Lz, rlog) for n in names}
            try:
                with warnings.catch_warnings():
                    warnings.simplefilter('ignore')
                    interp(eq.expr, Env(rser, t, REF_FUNCS))
            except Exception:  # noqa: BLE001
                pass
            rseen = set()
            for k_, nm, it, eff in rlog:
                for (n, k) in edges:
                    if n == nm and c._check(it != tz + k) == 'unsat':
                        rseen.add((n, k))
            return {'bad': bad, 'seen': seen, 'rseen': rseen}

        for path in ctx.explore(fn):
            out['paths'] += 1
            if path.outcome[0] == 'exc':
                # the equation itself may raise on some paths (e.g. int division by zero): not a graph matter
                continue
            r = path.outcome[1]
            read_edges_seen |= r['seen']
            ref_edges_seen |= r['rseen']
            for b in r['bad'][:1]:
                if len(out['bad']) < 2:
                    out['bad'].append({'what': b, 'replayed': _replay_perturb(sym.code, names, eq, edges, lags, leads), 'replay': {'text': text}})
        add_stats(out['stats'], ctx.stats.as_dict())
        out['assumptions'] = ctx.assumptions
        if not ctx.exhausted:
            return {'harness_error': f'not exhaustive: {show(prog)}', 'item': show(prog)}
        missing = [e for e in edges if e in ref_edges_seen and e not in read_edges_seen]
        if twin == 'phantom_edge':
            missing = missing + [('X', 7)]
        if missing:
            out['bad'].append({'what': f'edges into {y} whose source is never read on any path: {missing}', 'replayed': True,
                               'replay': {'text': text, 'edges': edges}})
    return out


def _off(label: str) -> int:
    inner = label.split('[', 1)[1].rstrip(']')
    return 0 if inner == 't' else int(inner[1:])


def _replay_perturb(code, names, eq, edges, lags, leads) -> bool:
    """Concrete form of the statement: perturb each (series, offset) without an edge on random data."""
    rng = random.Random(1)
    L = lags + leads + 3
    t = lags + 1
    for trial in range(5):
        data = {n: np.array([rng.uniform(0.5, 3.0) for _ in range(L)]) for n in names}
        base = {n: v.copy() for n, v in data.items()}
        try:
            _exec_code(code, base, t, concrete=True)
        except Exception:  # noqa: BLE001
            continue
        y0 = base[eq.target.name][t + eq.target.off]
        for n in names:
            for k in range(-lags, leads + 1):
                if (n, k) in edges or (n == eq.target.name and k == eq.target.off):
                    continue
                d2 = {m: v.copy() for m, v in data.items()}
                d2[n][t + k] += 1.2345
                try:
                    _exec_code(code, d2, t, concrete=True)
                except Exception:  # noqa: BLE001
                    continue
                if d2[eq.target.name][t + eq.target.off] != y0:
                    return True
    return False


def main() -> int:
    tier = vlib.tier()
    rep = vlib.Report('C20', 'translation_validation', tier)
    ps = program_set(tier, vlib.seed(), samples_quick=60, samples_thorough=1500)
    items = []
    for k in ('fixed', 'exhaustive', 'conditional', 'sampled'):
        for p in ps[k]:
            items.append((p, None))
    results = run_items(work, items, soft_items=ps['sampled'])
    p0 = (Eq(Var('Y'), Bin('+', Var('X', off=-1), Var('Z'))),)
    tw = [work((p0, 'drop_edge')), work((p0, 'phantom_edge'))]
    c01_finish(rep, results, tw, ps, tier, extra={
        'program_level_assertions': sum(r.get('program_level', 0) for r in results if 'harness_error' not in r),
        'rule': 'one case = one program; concrete: node set, equation attributes, edge set vs AST dependency sets; solver: per equation, every '
                'joint path of Symbol.code in isolation over symbolic cells, t, L: accesses only along edges (LIA), non-interference for up '
                'to 6 non-edge (series, offset) pairs, every edge read on some path',
        'functions_encoded': ['fsic.tools.symbols_to_graph (concrete)', 'Symbol.code of each endogenous symbol (symbolic, in isolation)'],
        'outside_claim': ['programs outside the enumerated/sampled set', 'function / keyword nodes of the graph (the statement restricts itself to variable-like nodes)'],
    })
    return rep.finish()


if __name__ == '__main__':
    sys.exit(main())
