"""C08 -- linker solves its submodels jointly and consistently.

Real code: BaseLinker.__init__, solve_t, evaluate_t (fsic/core/linkers.py)
with `fsic.core.linkers.np` replaced by the symx stand-in.  Submodels are
scripted fsic models, the linker has 0..1 own check variables written by its
evaluate_t_before/after hooks.  Symbolic: per-iteration values of every check
variable, tol, min_iter, offset, initial cells, span labels (construction),
LAGS/LEADS of the submodel classes.  Oracle: reference written from the
statement + bare-model twin (wrapper law).
"""
from __future__ import annotations

import contextlib
import itertools
import sys
import time
import warnings
from typing import Any, Dict, List, Optional

import numpy as np
import z3

import fsic
import fsic.core.linkers as flinkers
import fsic.core.models as fmodels
import vlib
from checks import loopfam as lf
from checks.loopdriver import run_family
from loopmodel import Script, make_scripted
from symx.core import Ctx, cur
from symx.npshim import NpShim
from symx.src import ConSrc, SymSrc, witness
from symx.values import SFloat, SInt, fpval

_LSHIM = NpShim()
IDS = ['A', 'B', 'C', 'D']


MAX_CANDIDATES = 3  # IEEE confirmations + replays per configuration (further mismatching paths are only counted)


@contextlib.contextmanager
def shimmed():
    old_l, old_m = flinkers.np, fmodels.np
    flinkers.np = _LSHIM
    fmodels.np = lf._SHIM
    try:
        yield
    finally:
        flinkers.np, fmodels.np = old_l, old_m


def cfg8(**kw) -> dict:
    c = dict(n_sub=1, B=2, L=3, t=1, own=False,        # own: linker has its own check variable W
             select=None,                              # None = default (all) | list of ids
             failures='raise', offset='zero',          # 'zero' | 'sym'
             mode='solve_t',                           # solve_t | wrapper | construct
             min_iter='sym', twin=None)
    c.update(kw)
    return c


_LINKER_CLASSES: dict = {}


def _linker_class(own: bool):
    if own in _LINKER_CLASSES:
        return _LINKER_CLASSES[own]

    class ScriptedLinker(fsic.BaseLinker):
        ENDOGENOUS = ['W'] if own else []
        EXOGENOUS = ['V']
        NAMES = ENDOGENOUS + EXOGENOUS
        CHECK = ENDOGENOUS

        def _sx(self):
            return self.__dict__['_lx']

        def solve_t_before(self, t, *, submodels=None, iteration=None, **kw):
            self._sx()['log'].append(('solve_before', iteration, tuple(submodels)))

        def solve_t_after(self, t, *, submodels=None, iteration=None, **kw):
            self._sx()['log'].append(('solve_after', iteration, tuple(submodels)))

        def evaluate_t_before(self, t, *, submodels=None, iteration=None, **kw):
            x = self._sx()
            x['log'].append(('pre', iteration))
            if own:
                self.__dict__['_W'][t] = x['wb'][iteration]

        def evaluate_t_after(self, t, *, submodels=None, iteration=None, **kw):
            x = self._sx()
            x['log'].append(('post', iteration))
            if own:
                self.__dict__['_W'][t] = x['wa'][iteration]

    _LINKER_CLASSES[own] = ScriptedLinker
    return ScriptedLinker


def _build(cfg: dict, src, dtype):
    """Linker + submodels + their scripts from a value source."""
    L, B = cfg['L'], cfg['B']
    span = list(range(2000, 2000 + L))
    M = make_scripted(1, with_z=False)
    subs = {}
    shared: list = []
    for sid in IDS[:cfg['n_sub']]:
        m = M(list(span), dtype=dtype)
        s = Script(1, B)
        for p in range(1, B + 1):
            s.v[p] = [src.f(f'v_{sid}_{p}')]
        for n in ('Y0', 'X'):
            arr = m.__dict__['_' + n]
            for j in range(L):
                arr[j] = src.f(f'{sid}_{n}_{j}')
        m.attach(s)
        st = m._script_state()
        st['id'] = sid
        st['tlog'] = shared
        subs[sid] = m
    LK = _linker_class(cfg['own'])
    lk = LK(subs, dtype=dtype)
    x = {'log': shared, 'wb': [None] + [src.f(f'wb_{p}') for p in range(1, B + 1)],
         'wa': [None] + [src.f(f'wa_{p}') for p in range(1, B + 1)]}
    lk.__dict__['_lx'] = x
    for n in lk.names:
        arr = lk.__dict__['_' + n]
        for j in range(len(lk.span)):
            arr[j] = src.f(f'L_{n}_{j}')
    return lk, subs, shared


def _build_staged(cfg: dict, src, dtype, symbolic: bool):
    """The linker in the state under test, reached through a HISTORY when cfg['stage'] is set ('history' | 'history_copy'):
    every period solved before with OTHER selections of submodels (one, two, ... in turn) and scripted, converging passes;
    optionally the linker copied; then every series re-installed by whole-series assignment, marks reset, scripts
    re-attached.  Whatever the linker remembers from the earlier calls (a selection, arrays, positions) is stale."""
    lk, subs, shared = _build(cfg, src, dtype)
    stage = cfg.get('stage')
    if not stage:
        return lk, subs, shared
    target = _snapshot(lk, subs)
    scripts = {sid: m._script_state()['script'] for sid, m in subs.items()}
    x = lk.__dict__['_lx']
    L = cfg['L']
    for sid, m in subs.items():
        pre = Script(1, 2)
        pre.v[1] = pre.v[2] = [1.0]
        m.attach(pre)
        m._script_state()['id'] = sid
    lk.__dict__['_lx'] = {'log': [], 'wb': [None, 1.0, 1.0], 'wa': [None, 1.0, 1.0]}
    for (owner, n), vals in target.items():     # the history runs on plain numbers
        arr = (lk if owner == 'L' else subs[owner]).__dict__['_' + n]
        for j in range(len(vals)):
            arr[j] = 1.0
    ids = list(subs)
    with (shimmed() if symbolic else contextlib.nullcontext()):
        for j in range(L):
            if ids:
                _run(lambda: lk.solve_t(j, max_iter=2, failures='ignore', submodels=ids[:1 + j % len(ids)]))
            else:
                _run(lambda: lk.solve_t(j, max_iter=2, failures='ignore'))
    if stage == 'history_copy':
        lk = lk.copy()
        subs = dict(lk.__dict__['submodels'])
    for (owner, n), vals in target.items():
        setattr(lk if owner == 'L' else subs[owner], n, list(vals))
    for o in [lk] + list(subs.values()):
        o.status = '-'
        o.iterations = -1
    del shared[:]
    for sid, m in subs.items():
        m.attach(scripts[sid])
        st = m._script_state()
        st['id'] = sid
        st['tlog'] = shared
    x['log'] = shared
    lk.__dict__['_lx'] = x
    return lk, subs, shared


def _opts(cfg, src):
    tol = src.f('tol')
    min_iter = src.i('min_iter') if cfg['min_iter'] == 'sym' else cfg['min_iter']
    offset = src.i('offset') if cfg['offset'] == 'sym' else 0
    return tol, min_iter, offset


def _snapshot(lk, subs):
    out = {('L', n): list(lk.__dict__['_' + n]) for n in lk.names}
    for sid, m in subs.items():
        for n in m.names:
            out[(sid, n)] = list(m.__dict__['_' + n])
    return out


def _run(fn):
    try:
        with warnings.catch_warnings():
            warnings.simplefilter('ignore')
            return ('ret', fn())
    except Exception as e:  # noqa: BLE001
        return ('exc', type(e).__name__, str(e)[:100])


def _tb(x):
    return bool(x)


def _reference(cfg, cells, tol, min_iter, offset, scripts, wb, wa, sel):
    """The statement: expected (outcome, status, iterations per object, call order, cells)."""
    L, B, t = cfg['L'], cfg['B'], cfg['t']
    tc = t if t >= 0 else t + L
    ids = IDS[:cfg['n_sub']]
    order: list = []
    exp: Dict[str, Any] = {'status': {}, 'iters': {}, 'order': order}
    for s in sel:
        if s not in ids:
            # (with an out-of-span offset as well, either complaint may come first)
            exp['outcome'] = ('exc', 'KeyError')
            exp['alt'] = ('exc', 'IndexError')
            exp['cells'] = None
            return exp
    selected = [s for s in sel]
    # offset seeding, as for a single model
    if _tb(offset != 0):
        src_pos = tc + offset
        if _tb(src_pos < 0) or _tb(src_pos >= L):
            exp['outcome'] = ('exc', 'IndexError')
            exp['cells'] = cells
            return exp
        sp = src_pos.__index__() if hasattr(src_pos, '__index__') else int(src_pos)
        if cfg['own']:
            cells[('L', 'W')][tc] = cells[('L', 'W')][sp]
        for s in selected:
            cells[(s, 'Y0')][tc] = cells[(s, 'Y0')][sp]

    def check_vec():
        v = [cells[('L', 'W')][tc]] if cfg['own'] else []
        # check values are gathered in submodel insertion order (immaterial for the verdict)
        v += [cells[(s, 'Y0')][tc] for s in ids if s in selected]
        return v

    base = check_vec()
    order.append(('solve_before', 0, tuple(selected)))
    for k in range(1, B + 1):
        order.append(('pre', k))
        if cfg['own']:
            cells[('L', 'W')][tc] = wb[k]
        for s in selected:
            order.append(('eval', tc, k, s))
            cells[(s, 'Y0')][tc] = scripts[s].v[k][0]
        order.append(('post', k))
        if cfg['own']:
            cells[('L', 'W')][tc] = wa[k]
        curv = check_vec()
        if _tb(k < min_iter):
            base = curv
            continue
        ok: Any = True
        for c, b in zip(curv, base):
            f = abs(c - b) < tol
            ok = f if ok is True else (ok & f)
        if _tb(ok):
            order.append(('solve_after', k, tuple(selected)))
            exp['outcome'] = ('ret', True)
            exp['status'] = {'L': '.', **{s: '.' for s in selected}}
            exp['iters'] = {'L': k, **{s: k for s in selected}}
            exp['cells'] = cells
            return exp
        base = curv
    exp['status'] = {'L': 'F', **{s: 'F' for s in selected}}
    exp['iters'] = {'L': B, **{s: B for s in selected}}
    exp['outcome'] = ('exc', 'NonConvergenceError') if cfg['failures'] == 'raise' else ('ret', False)
    exp['cells'] = cells
    return exp


def _term(x):
    return x.t if isinstance(x, SFloat) else fpval(float(x))


def _scenario(cfg: dict, src, dtype, symbolic: bool):
    """Run implementation and reference; returns list of discrepancies (+ cell term pairs when symbolic)."""
    L, B, t = cfg['L'], cfg['B'], cfg['t']
    tc = t if t >= 0 else t + L
    bad: List[str] = []
    cell_bad: list = []
    lk, subs, log = _build_staged(cfg, src, dtype, symbolic)
    tol, min_iter, offset = _opts(cfg, src)
    sel = cfg['select'] if cfg['select'] is not None else list(subs.keys())
    init = _snapshot(lk, subs)
    st0 = {'L': (list(map(str, lk.status)), list(map(int, lk.iterations))),
           **{s: (list(map(str, m.status)), list(map(int, m.iterations))) for s, m in subs.items()}}
    kw = dict(min_iter=min_iter, max_iter=B, tol=tol, offset=offset, failures=cfg['failures'])
    if cfg['select'] is not None:
        kw['submodels'] = list(cfg['select'])
    ctxm = shimmed() if symbolic else contextlib.nullcontext()
    with ctxm:
        a = _run(lambda: lk.solve_t(t, **kw))
    # reference on a fresh copy of the inputs
    lk2, subs2, _ = _build(cfg, src, dtype)
    cells = _snapshot(lk2, subs2)
    scripts = {s: m._script_state()['script'] for s, m in subs2.items()}
    x2 = lk2.__dict__['_lx']
    tol2, min2, off2 = _opts(cfg, src)
    exp = _reference(cfg, cells, tol2, min2, off2, scripts, x2['wb'], x2['wa'], sel)
    twin = cfg.get('twin')
    if twin == 'iters_off' and exp['iters']:
        exp['iters'] = {k: v + 1 for k, v in exp['iters'].items()}
    if twin == 'order' and len(exp['order']) > 3:
        exp['order'][1], exp['order'][2] = exp['order'][2], exp['order'][1]
    # outcome
    if exp['outcome'] == ('exc', 'KeyError'):
        oob = False
        if cfg['offset'] == 'sym':
            oob = bool((tc + off2 < 0)) or bool((tc + off2 >= L))
        if tuple(a[:2]) != exp['outcome'] and not (oob and tuple(a[:2]) == exp['alt']):
            bad.append(f"outcome impl={a[:2]} ref={exp['outcome']}")
        return bad, cell_bad, a, exp
    if tuple(a[:2]) != tuple(exp['outcome'][:2]):
        bad.append(f"outcome impl={a[:2]} ref={exp['outcome']}")
    # statuses / iterations
    objs = {'L': lk, **subs}
    for name, o in objs.items():
        s_now, i_now = list(map(str, o.status)), list(map(int, o.iterations))
        s_exp, i_exp = list(st0[name][0]), list(st0[name][1])
        if name in exp['status']:
            s_exp[tc] = exp['status'][name]
            i_exp[tc] = exp['iters'][name]
        if exp['outcome'] == ('exc', 'IndexError'):
            pass  # nothing stamped
        if s_now != s_exp:
            bad.append(f'status of {name}: impl={s_now} ref={s_exp}')
        if i_now != i_exp:
            bad.append(f'iterations of {name}: impl={i_now} ref={i_exp}')
    # order of hook / submodel passes
    got = [e for e in log]
    if got != exp['order'] and exp['outcome'] != ('exc', 'IndexError'):
        bad.append(f"call order impl={got} ref={exp['order']}")
    # cells
    now = _snapshot(lk, subs)
    for key, vals in now.items():
        for j, v in enumerate(vals):
            e = exp['cells'][key][j]
            if symbolic:
                x, y = _term(v), _term(e)
                if not x.eq(y) and cur()._check(x != y) == 'sat':
                    cell_bad.append((key, j, x, y))
            else:
                if not lf._same_bits(float(v), float(e)):
                    bad.append(f'cell {key}[{j}] impl={float(v)!r} ref={float(e)!r}')
    return bad, cell_bad, a, exp


def _wrapper_scenario(cfg: dict, src, dtype, symbolic: bool):
    """A linker around one model, no own equations == the bare model."""
    L, B, t = cfg['L'], cfg['B'], cfg['t']
    bad: List[str] = []
    cell_bad: list = []
    lk, subs, log = _build(cfg, src, dtype)
    tol, min_iter, offset = _opts(cfg, src)
    kw = dict(min_iter=min_iter, max_iter=B, tol=tol, offset=offset, failures=cfg['failures'])
    ctxm = shimmed() if symbolic else contextlib.nullcontext()
    with ctxm:
        a = _run(lambda: lk.solve_t(t, **kw))
        _, subs2, _ = _build(cfg, src, dtype)
        bare = subs2['A']
        b = _run(lambda: bare.solve_t(t, errors='ignore', **kw))
    if cfg.get('twin') == 'flip' and b[0] == 'ret':
        b = ('ret', not b[1])
    if a[:2] != b[:2]:
        bad.append(f'linker outcome {a[:2]} vs bare model {b[:2]}')
    wrapped = subs['A']
    if list(map(str, wrapped.status)) != list(map(str, bare.status)):
        bad.append(f'wrapped status {list(wrapped.status)} vs bare {list(bare.status)}')
    if list(map(int, wrapped.iterations)) != list(map(int, bare.iterations)):
        bad.append(f'wrapped iterations {list(wrapped.iterations)} vs bare {list(bare.iterations)}')
    if (b[0] == 'ret' or b[1] == 'NonConvergenceError') and (str(lk.status[t]) != str(bare.status[t])
                                                               or int(lk.iterations[t]) != int(bare.iterations[t])):
        bad.append(f'linker status {lk.status[t]!r} vs bare {bare.status[t]!r}')
    for n in bare.names:
        for j in range(L):
            v, e = wrapped.__dict__['_' + n][j], bare.__dict__['_' + n][j]
            if symbolic:
                x, y = _term(v), _term(e)
                if not x.eq(y) and cur()._check(x != y) == 'sat':
                    cell_bad.append(((n,), j, x, y))
            elif not lf._same_bits(float(v), float(e)):
                bad.append(f'cell {n}[{j}] wrapped={float(v)!r} bare={float(e)!r}')
    return bad, cell_bad, a, {'outcome': b[:2]}


def explore8(cfg: dict) -> dict:
    t_start = time.time()
    if cfg['mode'] == 'construct':
        return explore_construct(cfg)
    ctx = Ctx(budget_s=900)
    src0 = SymSrc()
    _build(cfg, src0, object)
    _opts(cfg, src0)
    B, L = cfg['B'], cfg['L']
    if cfg['min_iter'] == 'sym':
        ctx.assume(z3.And(z3.Int('min_iter') >= 0, z3.Int('min_iter') <= B), '0 <= min_iter <= max_iter (the statement presumes it)')
    if cfg['offset'] == 'sym':
        ctx.assume(z3.And(z3.Int('offset') >= -L - 1, z3.Int('offset') <= L + 1), '-L-1 <= offset <= L+1')
    fin = []
    for n in src0.floats:
        if n != 'tol':
            x = z3.FP(n, z3.Float64())
            fin.append(z3.And(z3.Not(z3.fpIsNaN(x)), z3.Not(z3.fpIsInf(x))))
    if cfg['mode'] == 'wrapper' or cfg.get('finite', False):
        ctx.assume(z3.And(*fin), 'all data finite (wrapper law: the linker has no errors policy of its own)')
    # solve_t mode: every Float64 incl. NaN / inf -- a NaN move is not "less than tol", so the period must not be declared solved
    scen = _wrapper_scenario if cfg['mode'] == 'wrapper' else _scenario
    holder: dict = {}

    def fn():
        src = SymSrc()
        holder['src'] = src
        bad, cell_bad, a, exp = scen(cfg, src, object, True)
        return {'bad': bad, 'cell_bad': cell_bad, 'a': a[:2], 'ref': exp['outcome']}

    res: Dict[str, Any] = {'cfg': dict(cfg), 'paths': 0, 'mismatch_paths': 0, 'candidates': [], 'outcomes': {},
                           'witness_checked': 0, 'witness_bad': [], 'spurious_under_uf': 0, 'nontrivial_paths': 0}
    for path in ctx.explore(fn):
        res['paths'] += 1
        rec = path.outcome
        if rec[0] == 'exc':
            raise RuntimeError(f'harness raised on a path: {rec[1]!r}')
        r = rec[1]
        okey = str(r['a'])
        res['outcomes'][okey] = res['outcomes'].get(okey, 0) + 1
        res['nontrivial_paths'] += 1
        if r['bad'] or r['cell_bad']:
            res['mismatch_paths'] += 1
            if len(res['candidates']) + res['spurious_under_uf'] >= MAX_CANDIDATES:
                continue
            extra = [] if r['bad'] else [z3.Or(*[x != y for (_, _, x, y) in r['cell_bad']])]
            inp = witness(ctx, holder['src'], extra)
            if inp is None:
                res['spurious_under_uf'] += 1
                continue
            cb, _, ca, cexp = scen(cfg, ConSrc(inp), float, False)
            res['candidates'].append({'symbolic': r['bad'] + [f'cell {k}[{j}]' for k, j, _, _ in r['cell_bad']],
                                      'inputs': inp, 'replay': {'bad': cb, 'impl': ca[:2], 'ref': cexp['outcome']}})
    res['exhausted'] = ctx.exhausted
    res['smt_samples'] = list(ctx.samples)
    res['stats'] = ctx.stats.as_dict()
    res['assumptions'] = list(ctx.assumptions)
    res['shim_calls'] = dict(_LSHIM.calls)
    res['wall_s'] = round(time.time() - t_start, 3)
    return res


# -- construction: span agreement and LAGS/LEADS maxima ----------------------------------------
def explore_construct(cfg: dict) -> dict:
    from symx.values import SLabel

    t_start = time.time()
    ctx = Ctx(budget_s=300)
    n, L = cfg['n_sub'], cfg['L']
    lens = cfg.get('lens') or [L] * n
    for i in range(n):
        ctx.assume(z3.And(z3.Int(f'lags_{i}') >= 0, z3.Int(f'leads_{i}') >= 0), 'submodel LAGS/LEADS >= 0')
    twin = cfg.get('twin')

    def fn():
        subs = {}
        spans = []
        for i in range(n):
            M = make_scripted(0, with_z=False, with_x=True)
            K = type(f'K{i}', (M,), {'LAGS': SInt(f'lags_{i}'), 'LEADS': SInt(f'leads_{i}')})
            sp = [SLabel(f'lab_{i}_{j}') for j in range(lens[i])]
            spans.append(sp)
            subs[IDS[i]] = K(sp)
        a = _run(lambda: fsic.BaseLinker(subs))
        c = cur()
        bad = []
        # reference: spans equal iff same length and label-wise equal
        same: Any = True
        if n == 0:
            if a[0] != 'ret' or (a[1].LAGS, a[1].LEADS, len(a[1].span)) != (0, 0, 0):
                bad.append(f'empty linker: {a[:2]}')
            return {'bad': bad, 'cell_bad': [], 'a': ('ret', 'linker'), 'ref': True}
        for i in range(1, n):
            if len(spans[i]) != len(spans[0]):
                same = False
                break
            for x, y in zip(spans[0], spans[i]):
                if not bool(x == y):
                    same = False
                    break
            if same is False:
                break
        if twin == 'span_flip':
            same = not same
        if same:
            if a[0] != 'ret':
                bad.append(f'equal spans rejected: {a[:2]}')
            else:
                lk = a[1]
                want_lags = _zmax([z3.Int(f'lags_{i}') for i in range(n)])
                want_leads = _zmax([z3.Int(f'leads_{i}') for i in range(n)])
                for nm, got, want in (('LAGS', lk.LAGS, want_lags), ('LEADS', lk.LEADS, want_leads),
                                      ('lags', lk.lags, want_lags), ('leads', lk.leads, want_leads)):
                    g = got.t if isinstance(got, SInt) else z3.IntVal(int(got))
                    if c._check(g != want) == 'sat':
                        bad.append(f'linker {nm} is not the maximum over its submodels')
        else:
            if a[:2] != ('exc', 'InitialisationError'):
                bad.append(f'differing spans accepted: {a[:2]}')
        return {'bad': bad, 'cell_bad': [], 'a': a[:2] if a[0] == 'exc' else ('ret', 'linker'), 'ref': same}

    res: Dict[str, Any] = {'cfg': dict(cfg), 'paths': 0, 'mismatch_paths': 0, 'candidates': [], 'outcomes': {},
                           'witness_checked': 0, 'witness_bad': [], 'spurious_under_uf': 0, 'nontrivial_paths': 0}
    for path in ctx.explore(fn):
        res['paths'] += 1
        rec = path.outcome
        if rec[0] == 'exc':
            raise RuntimeError(f'harness raised on a path: {rec[1]!r}')
        r = rec[1]
        res['outcomes'][str(r['a'])] = res['outcomes'].get(str(r['a']), 0) + 1
        res['nontrivial_paths'] += 1
        if r['bad']:
            res['mismatch_paths'] += 1
            if len(res['candidates']) + res['spurious_under_uf'] >= MAX_CANDIDATES:
                continue
            m = path.model()
            vals = {str(d): m[d].as_long() for d in m.decls() if m[d] is not None and z3.is_int_value(m[d])}
            rep = _replay_construct(cfg, vals, lens)
            res['candidates'].append({'symbolic': r['bad'], 'inputs': vals, 'replay': rep})
    res['exhausted'] = ctx.exhausted
    res['smt_samples'] = list(ctx.samples)
    res['stats'] = ctx.stats.as_dict()
    res['assumptions'] = list(ctx.assumptions)
    res['shim_calls'] = {}
    res['wall_s'] = round(time.time() - t_start, 3)
    return res


def _zmax(ts):
    out = ts[0]
    for t in ts[1:]:
        out = z3.If(t > out, t, out)
    return out


def _replay_construct(cfg, vals, lens):
    n = cfg['n_sub']
    subs, spans = {}, []
    for i in range(n):
        M = make_scripted(0, with_z=False, with_x=True)
        K = type(f'K{i}', (M,), {'LAGS': vals.get(f'lags_{i}', 0), 'LEADS': vals.get(f'leads_{i}', 0)})
        sp = [vals.get(f'lab_{i}_{j}', 0) for j in range(lens[i])]
        spans.append(sp)
        subs[IDS[i]] = K(sp)
    a = _run(lambda: fsic.BaseLinker(subs))
    if n == 0:
        return {'bad': [] if a[0] == 'ret' else [f'empty linker: {a[:2]}'], 'impl': a[:2], 'ref': True}
    same = all(s == spans[0] for s in spans)
    if cfg.get('twin') == 'span_flip':
        same = not same
    bad = []
    if same:
        if a[0] != 'ret':
            bad.append(f'equal spans rejected: {a[:2]}')
        else:
            lk = a[1]
            wl = max(vals.get(f'lags_{i}', 0) for i in range(n))
            wd = max(vals.get(f'leads_{i}', 0) for i in range(n))
            if (lk.LAGS, lk.LEADS, lk.lags, lk.leads) != (wl, wd, wl, wd):
                bad.append(f'linker LAGS/LEADS {(lk.LAGS, lk.LEADS, lk.lags, lk.leads)} != maxima {(wl, wd)}')
    elif a[:2] != ('exc', 'InitialisationError'):
        bad.append(f'differing spans accepted: {a[:2]}')
    return {'bad': bad, 'impl': a[:2] if a[0] == 'exc' else ('ret', 'linker'), 'ref': same}


# ---------------------------------------------------------------------------------------------
def configs(tier: str):
    out = []
    Bs = (0, 1, 2) if tier == 'quick' else (0, 1, 2, 3)
    max_sub = 2 if tier == 'quick' else 4
    for n_sub in range(1, max_sub + 1):
        ids = IDS[:n_sub]
        selections: list = [None]
        for r in range(0, n_sub + 1):
            for comb in itertools.permutations(ids, r):
                if n_sub == 4 and list(comb) != sorted(comb) and list(comb) != sorted(comb, reverse=True):
                    continue   # four submodels: every subset in insertion and in reversed order
                selections.append(list(comb))
        if n_sub:
            selections.append([ids[0], 'nope'])
        selections.append(['nope'])
        for sel in selections:
            for own in (False, True):
                for B in Bs:
                    if B == 3 and (n_sub >= 3 and sel is not None and len(sel) < n_sub):
                        continue
                    for failures in ('raise', 'ignore'):
                        for t, offset in ((1, 'zero'), (-1, 'zero'), (0, 'sym'), (-1, 'sym'), (-2, 'sym')):
                            if offset == 'sym' and (failures == 'ignore' or B > 2 or (sel is not None and n_sub > 1 and len(sel) != 1)):
                                continue
                            if t < 0 and offset == 'sym' and (B > 1 or n_sub > 2):
                                continue     # a negative position with a symbolic offset: short loops suffice
                            if t == -1 and offset == 'zero' and (own or failures == 'ignore'):
                                continue
                            out.append(cfg8(n_sub=n_sub, B=B, own=own, select=sel, failures=failures, t=t, offset=offset))
    # HISTORIES: the linker has solved other periods with other selections before (and may have been copied since)
    for stage in ('history', 'history_copy'):
        for n_sub in (2, 3) if tier == 'quick' else (1, 2, 3):
            ids = IDS[:n_sub]
            for sel in (None, list(ids), list(ids[1:]), list(reversed(ids)), []):
                for own in (False, True):
                    for B in (1, 2):
                        if tier == 'quick' and n_sub == 3 and (own or B == 2):
                            continue
                        for failures in ('raise', 'ignore'):
                            out.append(cfg8(n_sub=n_sub, B=B, own=own, select=sel, failures=failures, t=1, offset='zero', stage=stage))
    # wrapper law
    for B in Bs:
        for failures in ('raise', 'ignore'):
            for t, offset in ((1, 'zero'), (-2, 'zero'), (1, 'sym')):
                out.append(cfg8(n_sub=1, B=B, failures=failures, t=t, offset=offset, mode='wrapper'))
    # construction
    for n_sub in (0, 1, 2, 3):
        for L in (0, 1, 2, 3):
            out.append(cfg8(n_sub=n_sub, L=L, mode='construct'))
    out.append(cfg8(n_sub=2, L=2, mode='construct', lens=[2, 3]))
    out.append(cfg8(n_sub=3, L=2, mode='construct', lens=[2, 2, 1]))
    return out


TWINS = [
    cfg8(n_sub=1, B=2, twin='iters_off'),
    cfg8(n_sub=2, B=1, own=True, twin='order'),
    cfg8(n_sub=1, B=1, mode='wrapper', failures='ignore', twin='flip'),
    cfg8(n_sub=2, L=2, mode='construct', twin='span_flip'),
]


def finding_key(cfg: dict, cand: dict) -> str:
    bad = ' | '.join(cand['replay']['bad'])
    if cfg['B'] == 0 and 'UnboundLocalError' in bad:
        return 'max_iter=0:UnboundLocalError'
    if cfg['offset'] == 'sym' and cand['inputs'].get('i', {}).get('offset', 0) != 0:
        return 'offset-ignored'
    if cfg['mode'] in ('solve_t', 'wrapper') and ("('ret', True)" in bad or "'.'" in bad) and 'impl' in bad:
        return 'converges-on-squared-difference'
    return f"mode={cfg['mode']},n={cfg['n_sub']},B={cfg['B']},own={cfg['own']},sel={cfg['select']},t={cfg['t']}{',' + cfg['stage'] if cfg.get('stage') else ''}:{cand['replay']['bad'][0] if cand['replay']['bad'] else '?'}"


def main() -> int:
    tier = vlib.tier()
    rep = vlib.Report('C08', 'model_checking', tier)
    run_family(
        rep, configs(tier), TWINS,
        functions=['fsic.core.linkers.BaseLinker.__init__', 'BaseLinker.solve_t', 'BaseLinker.evaluate_t',
                   'BaseLinker.LAGS/LEADS', 'fsic.core.models.BaseModel.solve_t (wrapper-law twin)'],
        bounds={'submodels': f"0..{2 if tier == 'quick' else 4}, one check variable each", 'linker_check_variables': '0..1',
                'max_iter': f"0..{2 if tier == 'quick' else 3}", 'selection': 'every ordered sub-selection + unknown ids + default',
                'span_length': 3, 'values': 'every finite Float64 per iteration and cell', 'tol': 'any Float64',
                'min_iter': 'symbolic 0..max_iter', 'offset': 'symbolic -L-1..L+1 or 0',
                'construction': 'spans of symbolic labels (length 0..3), symbolic LAGS/LEADS >= 0'},
        outside=['non-finite data (the linker has no errors policy)', 'min_iter > max_iter in BaseLinker.solve_t (not stated)',
                 'linker solve() over several periods (same loop as C05)', 'submodels with hooks or several check variables',
                 'state after a KeyError for an unknown submodel id'],
        key_fn=finding_key, explore=explore8,
    )
    return rep.finish()


if __name__ == '__main__':
    sys.exit(main())
