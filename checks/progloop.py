"""Full solve_t on PARSER-BUILT models (C01-grammar programs) against the reference state machine.

The generated `_evaluate` runs inside the real `BaseModel.solve_t` on symbolic cells (object arrays of z3 Float64
proxies, uninterpreted arithmetic); the reference derives each pass's values by interpreting the program's AST on its
own copy of the cells (Gauss-Seidel within a pass, feedback across passes) and feeds them to `loopmodel.ref_solve_t`.
This composes C01 (the equations) with C02/C06 (the loop): contractive, divergent and oscillating systems are all
covered because the pass values are arbitrary terms of the data.
"""
from __future__ import annotations

import time
import warnings
from typing import Any, Dict, List

import numpy as np
import z3

import fsic
from checks import loopfam as lf
from gram import Bin, Call, Env, Eq, Layout, Neg, Num, Var, evaluation_order, interp, render
from gram.pipeline import REF_FUNCS, install_user_functions
from loopmodel import NONE, Script, ref_solve_t
from symx.core import Ctx, cur
from symx.src import ConSrc, SymSrc, witness
from symx.values import SFloat, SInt, fpval

PROGRAMS: Dict[str, tuple] = {
    # one equation, self-feedback across passes (contractive / divergent depending on the parameter)
    'feedback': (Eq(Var('Y'), Bin('+', Bin('*', Var('a', 'p'), Var('Y')), Var('X'))),),
    # oscillating: Y = 1 - Y
    'oscillate': (Eq(Var('Y'), Bin('-', Num('1'), Var('Y'))),),
    # two equations, Gauss-Seidel inside the pass and feedback across passes
    'pair': (Eq(Var('A'), Bin('+', Bin('*', Num('0.5'), Var('B')), Var('X'))), Eq(Var('B'), Bin('*', Var('g', 'p'), Var('A')))),
    # lag and lead, no feedback (converges on the second pass)
    'laglead': (Eq(Var('Y'), Bin('+', Var('Y', off=-1), Var('Z', off=1))),),
    # exogenous-only right-hand side with a replaced function
    'expx': (Eq(Var('Y'), Call('exp', (Neg(Var('X')),))),),
    # three equations (the SIM core)
    'sim': (Eq(Var('C'), Bin('+', Bin('*', Var('a1', 'p'), Var('YD')), Bin('*', Var('a2', 'p'), Var('H', off=-1)))),
            Eq(Var('YD'), Bin('-', Var('Y'), Var('T'))), Eq(Var('Y'), Bin('+', Var('C'), Var('G')))),
}


def cfgp(**kw) -> dict:
    c = dict(part='progloop', prog='feedback', B=2, errors='raise', failures='raise', cfe=True, extra=1, t_off=0, neg=False, finite=True,
             min_iter='sym', twin=None)
    c.update(kw)
    return c


def explore_progloop(cfg: dict) -> dict:
    t_start = time.time()
    install_user_functions()
    prog = PROGRAMS[cfg['prog']]
    text = render(prog, Layout())
    Model = fsic.build_model(fsic.parse_model(text))
    names = list(Model.NAMES)
    B = cfg['B']
    L = Model.LAGS + Model.LEADS + 1 + cfg['extra']
    t_pos = Model.LAGS + cfg['t_off']
    if not (Model.LAGS <= t_pos <= L - 1 - Model.LEADS):
        raise ValueError('configuration addresses an infeasible period')
    t = t_pos - L if cfg['neg'] else t_pos
    order = evaluation_order(prog)
    check = [eq.target.name for eq in order]
    if check != list(Model.ENDOGENOUS):
        raise RuntimeError(f'evaluation order {check} != ENDOGENOUS {Model.ENDOGENOUS}')
    ctx = Ctx(budget_s=600)
    if cfg['min_iter'] == 'sym':
        ctx.assume(z3.And(z3.Int('min_iter') >= 0, z3.Int('min_iter') <= B + 1), f'0 <= min_iter <= max_iter+1 = {B + 1}')
    holder: Dict[str, Any] = {}
    twin = cfg.get('twin')

    def run(src, symbolic: bool):
        dtype = object if symbolic else float
        m = Model(list(range(1990, 1990 + L)), dtype=dtype)
        cells = {n: [src.f(f'{n}_{j}') for j in range(L)] for n in names}
        for n in names:
            for j in range(L):
                m.__dict__['_' + n][j] = cells[n][j]
        tol = src.f('tol')
        min_iter = src.i('min_iter') if cfg['min_iter'] == 'sym' else cfg['min_iter']
        if symbolic and cfg['finite']:
            for n in check:
                cur().require(cells[n][t_pos].isfinite().t)
        kw = dict(min_iter=min_iter, max_iter=B, tol=tol, errors=cfg['errors'], failures=cfg['failures'], catch_first_error=cfg['cfe'])
        out: Dict[str, Any] = {}
        try:
            with warnings.catch_warnings():
                warnings.simplefilter('ignore')
                if symbolic:
                    with lf.shimmed():
                        r = m.solve_t(t, **kw)
                else:
                    with np.errstate(all='ignore'):
                        r = m.solve_t(t, **kw)
            out.update(kind='ret', ret=r, exc=None, cause=None)
        except Exception as e:  # noqa: BLE001
            out.update(kind='exc', ret=None, exc=type(e).__name__, cause=type(e.__cause__).__name__ if e.__cause__ is not None else None)
        out['status'], out['iters'] = str(m.status[t]), int(m.iterations[t])
        out['status_all'] = [str(x) for x in m.status]
        # reference
        rcells = {n: [src.f(f'{n}_{j}') for j in range(L)] for n in names}
        scratch = {n: (list(v) if symbolic else np.array(v, dtype=float)) for n, v in rcells.items()}
        sc = Script(len(check), B)
        for p in range(1, B + 1):
            vals = []
            for eq in order:
                with np.errstate(all='ignore'):
                    v = interp(eq.expr, Env(scratch, t_pos, REF_FUNCS))
                if twin == 'plus_one' and p == 1:
                    v = v + 1
                if symbolic and cfg['finite']:
                    cur().require(v.isfinite().t if isinstance(v, SFloat) else z3.BoolVal(bool(np.isfinite(v))))
                vals.append(v)
                scratch[eq.target.name][t_pos] = v
            sc.v[p] = vals
        ref = ref_solve_t(rcells, '-', -1, sc, t=t, L=L, min_iter=min_iter, max_iter=B, tol=tol, offset=0, failures=cfg['failures'],
                          errors=cfg['errors'], cfe=cfg['cfe'], endogenous=check, check=check)
        bad: List[str] = []
        if ref.kind != 'any':
            if out['kind'] != ref.kind:
                bad.append(f"outcome impl={out['kind']}({out['exc']}) ref={ref.kind}({ref.exc})")
            elif ref.kind == 'ret' and out['ret'] != ref.ret:
                bad.append(f"return impl={out['ret']} ref={ref.ret}")
            elif ref.kind == 'exc' and out['exc'] != ref.exc:
                bad.append(f"exception impl={out['exc']} ref={ref.exc}")
            if ref.status is not None and out['status'] != ref.status:
                bad.append(f"status[t] impl={out['status']!r} ref={ref.status!r}")
            if ref.iters is not None and out['iters'] != ref.iters:
                bad.append(f"iterations[t] impl={out['iters']} ref={ref.iters}")
        for j, s_ in enumerate(out['status_all']):
            if j != t_pos and s_ != '-':
                bad.append(f'status changed at position {j} != t')
        terms = []
        if ref.kind != 'any':
            for n in names:
                for j in range(L):
                    a, b = m.__dict__['_' + n][j], ref.cells[n][j]
                    if symbolic:
                        at = a.t if isinstance(a, SFloat) else fpval(float(a))
                        bt = b.t if isinstance(b, SFloat) else fpval(float(b))
                        if not at.eq(bt) and cur()._check(at != bt) == 'sat':
                            bad.append(f'cell {n}[{j}] differs')
                            terms.append(at != bt)
                    elif not lf._same_bits(float(a), float(b)):
                        bad.append(f'cell {n}[{j}] impl={float(a)!r} ref={float(b)!r}')
        return bad, terms, out

    def fn():
        src = SymSrc()
        holder['src'] = src
        return run(src, True)

    res: Dict[str, Any] = {'cfg': dict(cfg), 'paths': 0, 'mismatch_paths': 0, 'candidates': [], 'outcomes': {}, 'witness_checked': 0,
                           'witness_bad': [], 'spurious_under_uf': 0, 'nontrivial_paths': 0}
    for path in ctx.explore(fn):
        res['paths'] += 1
        if path.outcome[0] == 'exc':
            raise RuntimeError(f'harness raised on a path: {path.outcome[1]!r}')
        bad, terms, out = path.outcome[1]
        res['nontrivial_paths'] += 1
        okey = f"{out['kind']}:{out['exc'] or out['ret']}:{out['status']}:{out['iters']}"
        res['outcomes'][okey] = res['outcomes'].get(okey, 0) + 1
        if bad:
            res['mismatch_paths'] += 1
            if len(res['candidates']) >= 2:
                continue
            inp = witness(ctx, holder['src'], [z3.Or(*terms)] if terms and len(terms) == len(bad) else [], timeout_ms=4000, uf_fallback=True)
            if inp is None:
                res['spurious_under_uf'] += 1
                continue
            cb, _, cout = run(ConSrc(inp), False)
            res['candidates'].append({'symbolic': bad, 'inputs': inp, 'replay': {'bad': cb, 'impl': cout, 'ref': None}})
    res['exhausted'] = ctx.exhausted
    res['smt_samples'] = list(ctx.samples)
    res['stats'] = ctx.stats.as_dict()
    res['assumptions'] = list(ctx.assumptions) + (['every check value (pre-existing at t and after each pass) finite [C02 scope]'] if cfg['finite'] else [])
    res['shim_calls'] = dict(lf._SHIM.calls)
    res['wall_s'] = round(time.time() - t_start, 3)
    return res


def progloop_configs(tier: str, finite: bool) -> List[dict]:
    out = []
    Bs = (1, 2) if tier == 'quick' else (1, 2, 3)
    for prog in PROGRAMS:
        for B in Bs:
            if prog == 'sim' and B > 2:
                continue
            for errors in (('raise', 'ignore') if finite else ('raise', 'skip', 'ignore', 'replace')):
                for failures in ('raise', 'ignore'):
                    if tier == 'quick' and failures == 'ignore' and errors != 'raise':
                        continue
                    for neg in (False, True):
                        if neg and (B > 1 or tier == 'quick' and prog not in ('feedback', 'laglead')):
                            continue
                        out.append(cfgp(prog=prog, B=B, errors=errors, failures=failures, neg=neg, finite=finite,
                                        extra=1 if prog != 'laglead' else 0))
    return out
