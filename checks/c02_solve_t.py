"""C02 -- per-period solve: status, iteration count, result flag and convergence.

Real code: BaseModel.solve_t, SolverMixin.solve_period (fsic/core/models.py,
interfaces.py), run on scripted models with z3 proxies.  Decided by z3: for
every enumerated configuration, every joint path of (implementation,
reference state machine) is explored; per path the concrete observables must
agree and every cell must be z3-equal.  See DESIGN 4/C02.
"""
from __future__ import annotations

import itertools
import sys

import vlib
from checks.loopfam import default_cfg, explore_config
from checks.loopdriver import run_family
from checks.progloop import cfgp, explore_progloop, progloop_configs


def configs(tier: str):
    B_max = 2 if tier == 'quick' else 4
    out = []
    for B in range(0, B_max + 1):
        for N in (0, 1, 2):
            for failures in ('raise', 'ignore'):
                for cfe in (True, False):
                    for t in (-3, -2, -1, 0, 1, 2):
                        for offset in ('zero', 'sym'):
                            # `errors` is irrelevant on finite data; cross it sparsely
                            errs = ('raise', 'skip', 'ignore', 'replace') if (t in (1, -1) and N == 1) else ('raise',)
                            for errors in errs:
                                if tier == 'quick' and B == B_max and N == 2 and t not in (0, 1, -1):
                                    continue
                                base = default_cfg(N=N, B=B, errors=errors, failures=failures, cfe=cfe, t=t,
                                                   offset=offset, finite=True, faults=False, hook_faults=False,
                                                   entry='solve_t', witness_rate=0.02 if tier == 'quick' else 0.1)
                                out.append(base)
                                # solve_period(label) must reduce to solve_t(position) with every option passed through
                                if t >= 0 and (N == 1 or offset == 'zero'):
                                    out.append(dict(base, entry='solve_period'))
    # finite data does not exclude warnings (e.g. raised while computing a non-check variable): symbolic fault kinds
    # with finite values exercise catch_first_error / errors on both entry points
    for entry in ('solve_t', 'solve_period'):
        for errors in ('raise', 'ignore'):
            for cfe in (True, False):
                for failures in ('raise', 'ignore'):
                    for B in (1, 2):
                        out.append(default_cfg(N=1, B=B, errors=errors, failures=failures, cfe=cfe, t=1, offset='zero', finite=True,
                                               faults=True, hook_faults=(B == 1), entry=entry))
    # solve_period on other span types (NumPy array: fallback locator; strings)
    for kind in ('nd', 'str'):
        for B in (1, 2):
            for t in (0, 1, 2):
                for failures in ('raise', 'ignore'):
                    out.append(default_cfg(N=1, B=B, failures=failures, t=t, offset='sym' if t == 1 else 'zero', entry='solve_period', span_kind=kind))
    # spans with repeated labels: solve_t works by position; status / iterations change at t only
    for B in (1, 2):
        for t in (0, 1, 2, -1):
            for failures in ('raise', 'ignore'):
                out.append(default_cfg(N=1, B=B, failures=failures, t=t, offset='zero', span_kind='dup'))
    # strict models
    for B in (0, 1, 2):
        for failures in ('raise', 'ignore'):
            out.append(default_cfg(N=1, B=B, failures=failures, t=1, offset='sym', strict=True))
    # hooks that WRITE: the pre-solution hook stores a value into a check variable, the post-solution hook into another
    for B in (1, 2) if tier == 'quick' else (0, 1, 2, 3):
        for N in (1, 2):
            for failures in ('raise', 'ignore'):
                for entry in ('solve_t', 'solve_period'):
                    if tier == 'quick' and (N == 2 and entry == 'solve_period'):
                        continue
                    out.append(default_cfg(N=N, B=B, failures=failures, t=1, offset='zero', pre_write=True, post_write=True, entry=entry))
    # ARBITRARY PRE-STATE and HISTORIES: the period may already carry any status (a re-solve), and the state may have been
    # reached through earlier public calls (every period solved before, read paths used, object copied / reindexed,
    # series replaced by whole-series assignment) -- nothing remembered from before may influence this solve
    for B in (1, 2) if tier == 'quick' else (0, 1, 2, 3):
        for N in (1, 2):
            for t in (1, -1) if tier == 'quick' else (0, 1, 2, -1):
                for failures in ('raise', 'ignore'):
                    out.append(default_cfg(N=N, B=B, failures=failures, t=t, offset='sym' if N == 1 else 'zero', status0='sym'))
                    for stage in ('rebind', 'copy', 'reindex', 'rebind_copy'):
                        if tier == 'quick' and (N == 2 and stage in ('copy', 'rebind_copy') or failures == 'ignore' and B == 1):
                            continue
                        out.append(default_cfg(N=N, B=B, failures=failures, t=t, offset='zero', stage=stage,
                                               status0=None if stage != 'copy' else 'sym',
                                               entry='solve_period' if (stage == 'reindex' and t >= 0) else 'solve_t'))
    return out


TWINS = [
    default_cfg(N=1, B=2, twin='tol_le'),
    default_cfg(N=1, B=2, twin='iters_off'),
    default_cfg(N=2, B=2, failures='ignore', twin='status_swap'),
]


def explore_any(cfg: dict) -> dict:
    if cfg.get('part') == 'progloop':
        return explore_progloop(cfg)
    return explore_config(cfg)


def main() -> int:
    tier = vlib.tier()
    rep = vlib.Report('C02', 'model_checking', tier)
    run_family(
        rep, configs(tier) + progloop_configs(tier, finite=True), TWINS + [cfgp(prog='feedback', B=2, twin='plus_one')],
        functions=['fsic.core.models.BaseModel.solve_t', 'fsic.core.interfaces.SolverMixin.solve_period',
                   'fsic.core.containers.VectorContainer._locate_period_in_span'],
        bounds={'max_iter': f"0..{2 if tier == 'quick' else 4}", 'check_variables': '0..2', 'span_length': 3,
                'positions': 'every positive and negative position', 'min_iter': 'symbolic in 0..max_iter+1',
                'offset': 'symbolic in -L-1..L+1 or 0', 'tol': 'any Float64 (incl. 0, negative, NaN, inf)',
                'values': 'every finite Float64 per cell and per pass'},
        outside=['parser-built models beyond the six listed under parser_built_models (full solve_t on generated code, symbolic cells)', 'max_iter < 0', 'more than two check variables', 'non-finite data (C06)', 'failures outside {raise, ignore}',
                 'pandas spans', 'Fortran engine (C07)'],
        key_fn=finding_key, explore=explore_any,
    )
    from checks.progloop import PROGRAMS
    from gram.family import show
    rep.coverage['parser_built_models'] = {k: show(v) for k, v in PROGRAMS.items()}
    return rep.finish()


def finding_key(cfg: dict, cand: dict) -> str:
    if cfg.get('part') == 'progloop':
        b = cand['replay']['bad']
        return f"progloop:{cfg['prog']},B={cfg['B']},errors={cfg['errors']},failures={cfg['failures']},neg={cfg['neg']}:{b[0] if b else '?'}"
    bad = ' '.join(cand['replay']['bad'])
    if cfg['B'] == 0 and 'UnboundLocalError' in bad:
        return 'max_iter=0:UnboundLocalError'
    hist = f",history={cfg['stage']}" if cfg.get('stage') else ''
    hist += f",status0={cfg['status0']}" if cfg.get('status0') is not None else ''
    return f"B={cfg['B']},N={cfg['N']},errors={cfg['errors']},failures={cfg['failures']},cfe={cfg['cfe']},t={cfg['t']},offset={cfg['offset']}{hist}:{cand['replay']['bad'][0] if cand['replay']['bad'] else '?'}"


if __name__ == '__main__':
    sys.exit(main())
