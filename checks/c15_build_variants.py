"""C15 -- all ways of building a class from symbols yield the same model.

Variants: build_model(symbols); exec(build_model_definition(symbols)) and
exec(Model.CODE) in a fresh namespace providing BaseModel; with/without type
hints; converters {default, identity-on-code, the docstring's conditional-store
wrapper}.  Solver: each variant's _evaluate runs on the same symbolic series
(cells, t, L) and must be z3-equal to the AST reference (hence pairwise equal);
the wrapper converter is compared with 'store only if positive' semantics.
Class attributes, converter call count/order and the empty symbol list are
concrete assertions.
"""
from __future__ import annotations

import base64
import pickle

import random
import sys
import textwrap
from typing import Any, Dict, List

import numpy as np

import fsic
import fsic.parser as fparser
import vlib
from checks.c01_generated_model import finish as c01_finish
from gram import Bin, Env, Eq, Layout, Num, Var, classify, evaluation_order, interp, render
from gram.driver import add_stats, run_items
from gram.family import program_set, show
from gram.pipeline import equivalence, install_user_functions, replay_values

T = fparser.Type
ATTRS = ('ENDOGENOUS', 'EXOGENOUS', 'PARAMETERS', 'ERRORS', 'NAMES', 'CHECK', 'LAGS', 'LEADS')


def custom_converter(symbol):
    """The wrapping converter of build_model_definition's docstring."""
    lhs, rhs = map(str.strip, symbol.code.split('=', maxsplit=1))
    return '''\
# {}
_ = {}
if _ > 0:  # Ignore negative values
    {} = _'''.format(symbol.equation, rhs, lhs)


def ref_store_if_positive(prog, env: Env) -> None:
    for eq in evaluation_order(prog):
        v = interp(eq.expr, env)
        if v > 0:
            env.write(eq.target, v)


def guard_converter(symbol):
    """A converter whose code carries an assertion (a guard the built class must keep, whichever way it is built)."""
    lhs, rhs = map(str.strip, symbol.code.split('=', maxsplit=1))
    return '''\
_ = {}
assert _ > 0, 'guard'
{} = _'''.format(rhs, lhs)


def ref_assert_positive(prog, env: Env) -> None:
    for eq in evaluation_order(prog):
        v = interp(eq.expr, env)
        if not (v > 0):
            raise AssertionError('guard')
        env.write(eq.target, v)


def _exec_class(code: str):
    ns: Dict[str, Any] = {}
    exec('from typing import Any, Dict, List, Optional\nimport numpy as np\nfrom fsic import BaseModel\n', ns)  # noqa: S102
    install_user_functions()
    ns['myexp'] = fparser.myexp
    ns['my'] = fparser.my
    exec(code, ns)  # noqa: S102
    return ns['Model']


VARIANTS = ['build', 'exec_definition', 'exec_CODE', 'build_untyped', 'exec_definition_untyped', 'identity_converter',
            'wrapper_converter', 'wrapper_converter_exec', 'guard_converter', 'guard_converter_exec']


def make_variant(symbols, name: str):
    """Every variant is built TWICE and the second result is the one examined (the builder must not remember anything
    from the first build: same converter object, same symbols); the two CODE texts must be identical."""
    first, _ = _make_variant(symbols, name)
    second, runner = _make_variant(symbols, name)
    if getattr(first, 'CODE', None) != getattr(second, 'CODE', None):
        raise AssertionError(f'the second build of variant {name} differs from the first')
    return second, runner


def _make_variant(symbols, name: str):
    if name == 'guard_converter':
        return fsic.build_model(symbols, converter=guard_converter), ref_assert_positive
    if name == 'guard_converter_exec':
        return _exec_class(fsic.build_model_definition(symbols, converter=guard_converter)), ref_assert_positive
    if name == 'build':
        return fsic.build_model(symbols), None
    if name == 'exec_definition':
        return _exec_class(fsic.build_model_definition(symbols)), None
    if name == 'exec_CODE':
        return _exec_class(fsic.build_model(symbols).CODE), None
    if name == 'build_untyped':
        return fsic.build_model(symbols, with_type_hints=False), None
    if name == 'exec_definition_untyped':
        return _exec_class(fsic.build_model_definition(symbols, with_type_hints=False)), None
    if name == 'identity_converter':
        return fsic.build_model(symbols, converter=lambda s: s.code), None
    if name == 'wrapper_converter':
        return fsic.build_model(symbols, converter=custom_converter), ref_store_if_positive
    if name == 'wrapper_converter_exec':
        return _exec_class(fsic.build_model_definition(symbols, converter=custom_converter, with_type_hints=False)), ref_store_if_positive
    raise ValueError(name)


def work(item) -> Dict[str, Any]:
    import time
    t0 = time.time()
    r = _work(item)
    r['wall_s'] = round(time.time() - t0, 2)
    return r


def _work(item) -> Dict[str, Any]:
    prog, variant, twin = item
    install_user_functions()
    text = render(prog, Layout())
    out: Dict[str, Any] = {'prog': show(prog), 'layout': variant, 'bad': [], 'paths': 0, 'stats': {}, 'status': 'ok', 'program_level': 0}
    ref = classify(prog)
    try:
        symbols = fsic.parse_model(text)
        base = fsic.build_model(symbols)
    except Exception as e:  # noqa: BLE001
        out['status'] = 'rejected'
        return out
    try:
        Model, ref_runner = make_variant(symbols, variant)
    except Exception as e:  # noqa: BLE001
        out['bad'].append({'what': f'variant {variant} failed to build: {type(e).__name__}: {e}', 'replayed': True, 'replay': {'text': text}})
        return out
    out['program_level'] += 1
    for a in ATTRS:
        if getattr(Model, a) != getattr(base, a):
            out['bad'].append({'what': f'{variant}: class attribute {a} = {getattr(Model, a)!r} differs from build_model\'s {getattr(base, a)!r}',
                               'replayed': True, 'replay': {'text': text}})
    if variant == 'build':
        # settings of lags/leads (concrete) and converter bookkeeping
        for kw, want in (({'lags': 5}, (5, base.LEADS)), ({'leads': 4}, (base.LAGS, 4)), ({'min_lags': 1}, (max(base.LAGS, 1), base.LEADS)),
                         ({'min_leads': 2}, (base.LAGS, max(base.LEADS, 2))), ({'lags': 0, 'min_lags': 9}, (0, base.LEADS)),
                         ({'lags': np.int64(5)}, (5, base.LEADS)), ({'leads': np.int32(4), 'lags': np.uint8(0)}, (0, 4))):
            for hints in (True, False):
                M2 = fsic.build_model(symbols, with_type_hints=hints, **kw)
                if (M2.LAGS, M2.LEADS) != want:
                    out['bad'].append({'what': f'build_model({kw}, hints={hints}) gave LAGS/LEADS {(M2.LAGS, M2.LEADS)} != {want}', 'replayed': True,
                                       'replay': {'text': text}})
        calls: List[str] = []

        def recording(s):
            calls.append(s.name)
            # (the braces spell the template's own field names: inserted code is never formatted again)
            return f'pass  # <<{s.name}>>' + ' {errors} {lags} {leads} {parameters} {endogenous} {exogenous} {equations} {{}} {0}'

        code = fsic.build_model_definition(symbols, converter=recording)
        want_calls = [s.name for s in symbols if s.type in (T.ENDOGENOUS, T.VERBATIM) and s.equation is not None and s.code is not None]
        if calls != want_calls:
            out['bad'].append({'what': f'converter called for {calls}, expected once per equation symbol in order {want_calls}', 'replayed': True,
                               'replay': {'text': text}})
        pos = [code.find(f'        pass  # <<{n}>>' + ' {errors} {lags} {leads} {parameters} {endogenous} {exogenous} {equations} {{}} {0}') for n in want_calls]
        if any(p < 0 for p in pos) or pos != sorted(pos) or code.count('# <<') != len(want_calls):
            out['bad'].append({'what': 'converter output not inserted verbatim, once each, in symbol order', 'replayed': True, 'replay': {'text': text}})
    if twin == 'plus_one':
        prog = (Eq(prog[0].target, Bin('+', prog[0].expr, Num('1'))),) + tuple(prog[1:])
    r = equivalence(prog, ref, Model, symbols, spelling='pos', check_text=False, check_reads=False, ref_runner=ref_runner)
    out['paths'] += r['paths']
    add_stats(out['stats'], r['stats'])
    out['assumptions'] = r['assumptions']
    out['spurious'] = r['spurious']
    if not r['exhausted']:
        return {'harness_error': f'exploration not exhaustive for {show(prog)!r}', 'item': show(prog)}
    for b in r['bad']:
        rb = replay_values(prog, Model, b['witness'], seed=vlib.seed(), ref_runner=ref_runner)
        out['bad'].append({'what': f'variant {variant}: ' + '; '.join(b['symbolic'][:3]), 'replayed': bool(rb),
                           'replay': {'text': text, 'witness': b['witness'], 'concrete': rb, 'program_pickle': base64.b64encode(pickle.dumps(prog)).decode()}})
    return out


def empty_model_case() -> List[str]:
    bad = []
    for hints in (True, False):
        M = fsic.build_model([], with_type_hints=hints)
        m = M(range(3))
        r = m.solve()
        if r != ([0, 1, 2], [0, 1, 2], [True, True, True]) or ''.join(m.status) != '...':
            bad.append(f'empty symbol list (hints={hints}) does not solve trivially: {r} {list(m.status)}')
        M2 = _exec_class(fsic.build_model_definition([], with_type_hints=hints))
        if M2(range(2)).solve()[2] != [True, True]:
            bad.append('exec of the empty definition does not solve trivially')
    syms = fsic.parse_model('Y = X')
    no_eq = [s._replace(equation=None, code=None) if s.name == 'Y' else s for s in syms]
    M3 = fsic.build_model(no_eq)
    if M3.ENDOGENOUS != ['Y'] or 'self._Y' in M3.CODE:
        bad.append('a symbol without an equation must contribute a variable but no code')
    return bad


def repeated_verbatim_case() -> List[str]:
    """Two symbols may carry the same equation text (a verbatim statement written twice): each must still
    contribute its own block, in order (concrete program-level assertion; added after seeded change C15_mut1)."""
    bad = []
    script = 'Y = X\n`self._Y[t] = self._Y[t] * 2`\nZ = Y\n`self._Y[t] = self._Y[t] * 2`\n'
    symbols = fsic.parse_model(script)
    calls: List[Any] = []

    def recording(s):
        calls.append(s.equation)
        return s.code

    code = fsic.build_model_definition(symbols, converter=recording)
    want = [s.equation for s in symbols if s.type in (T.ENDOGENOUS, T.VERBATIM) and s.equation is not None and s.code is not None]
    if calls != want:
        bad.append(f'converter calls {calls} != equation symbols in order {want}')
    if code.count('self._Y[t] = self._Y[t] * 2') != 2:
        bad.append('a verbatim statement written twice is emitted ' + str(code.count('self._Y[t] = self._Y[t] * 2')) + ' time(s)')
    for name in ('build', 'exec_definition', 'exec_CODE', 'build_untyped', 'identity_converter'):
        M, _ = make_variant(symbols, name)
        m = M(range(3), X=3.0)
        m._evaluate(1)
        # symbol-list order: Y = X; Z = Y; then the two verbatim blocks (verbatim symbols come last in the list)
        if (m.Y[1], m.Z[1]) != (12.0, 3.0):
            bad.append(f'variant {name}: Y[1], Z[1] = {(m.Y[1], m.Z[1])}, expected (12.0, 3.0)')
    return bad

def _ordered_code_runner(eq_symbols):
    """Reference for a hand-assembled symbol list: the statement's own words - each equation symbol's code, inserted
    verbatim, once, in symbol order - executed in that order on the reference series."""
    from gram.pipeline import _NS

    def run(prog, env):
        selfobj = _NS()
        for n, ser in env.series.items():
            setattr(selfobj, '_' + n, ser)
        ns = {'self': selfobj, 't': env.t, 'np': np}
        for s_ in eq_symbols:
            exec(s_.code, ns)  # noqa: S102 - the symbol's own code is the specification here
    return run


HAND_SCRIPT = 'Y = X + Z[-1]\n`self._Y[t] = self._Y[t] * 2`\nZ = Y * {a}\n`self._Z[t] = self._Z[t] + self._Y[t]`\n'


def hand_order_work(item) -> Dict[str, Any]:
    """Symbol lists that no script produces (parse_model puts verbatim symbols last): every permutation of the four
    equation-carrying symbols of HAND_SCRIPT, the equation-less symbols in between.  Solver: the variant's _evaluate
    against sequential execution of the symbols' code in list order, over symbolic cells, t, L.  Concrete: converter
    call order and insertion order.  (Added after seeded change C15_r10mut1.)"""
    perm, variant = item[:2]
    twin = item[2] if len(item) > 2 else None
    install_user_functions()
    base = fsic.parse_model(HAND_SCRIPT)
    eqs = [s for s in base if s.equation is not None]
    rest = [s for s in base if s.equation is None]
    order = [eqs[i] for i in perm]
    symbols = [order[0], rest[0], order[1], order[2], rest[1], order[3]]
    tag = 'hand-assembled order ' + ''.join(map(str, perm))
    out: Dict[str, Any] = {'prog': tag, 'layout': variant, 'bad': [], 'paths': 0, 'stats': {}, 'status': 'ok', 'program_level': 1}
    replay = {'hand_order': list(perm), 'variant': variant}
    calls: List[Any] = []

    def recording(s_):
        calls.append(s_.code)
        return f'pass  # <<{len(calls)}>>'

    code = fsic.build_model_definition(symbols, converter=recording)
    if calls != [s_.code for s_ in order]:
        out['bad'].append({'what': f'{tag}: converter called for {calls}, expected the equation symbols in list order', 'replayed': True, 'replay': replay})
    pos = [code.find(f'        pass  # <<{i + 1}>>') for i in range(len(order))]
    if any(p < 0 for p in pos) or pos != sorted(pos) or code.count('# <<') != len(order):
        out['bad'].append({'what': f'{tag}: converter output not inserted once each in symbol order', 'replayed': True, 'replay': replay})
    try:
        Model, _ = make_variant(symbols, variant)
    except Exception as e:  # noqa: BLE001
        out['bad'].append({'what': f'{tag}: variant {variant} failed to build: {type(e).__name__}: {e}', 'replayed': True, 'replay': replay})
        return out
    prog = (Eq(Var('Y'), Bin('+', Var('X'), Var('Z', off=-1))), Eq(Var('Z'), Bin('*', Var('Y'), Var('a'))))
    ref = classify(prog)
    for a in ('ENDOGENOUS', 'LAGS', 'LEADS'):
        want = {'ENDOGENOUS': [s_.name for s_ in order if s_.name], 'LAGS': 1, 'LEADS': 0}[a]
        if getattr(Model, a) != want:
            out['bad'].append({'what': f'{tag}: {variant}.{a} = {getattr(Model, a)!r}, expected {want!r}', 'replayed': True, 'replay': replay})
    # reachability twin: a reference that runs the blocks in the opposite order must be told apart and replayed
    rr = _ordered_code_runner(order[::-1] if twin == 'reversed_reference' else order)
    r = equivalence(prog, ref, Model, symbols, spelling='pos', check_text=False, check_reads=False, ref_runner=rr)
    out['paths'] += r['paths']
    add_stats(out['stats'], r['stats'])
    out['assumptions'] = r['assumptions']
    out['spurious'] = r['spurious']
    if not r['exhausted']:
        return {'harness_error': f'exploration not exhaustive for {tag}', 'item': tag}
    for b in r['bad']:
        rb = replay_values(prog, Model, b['witness'], seed=vlib.seed(), ref_runner=rr)
        out['bad'].append({'what': f'{tag}, variant {variant}: ' + '; '.join(b['symbolic'][:3]), 'replayed': bool(rb),
                           'replay': dict(replay, witness=b['witness'], concrete=rb)})
    return out


def main() -> int:
    tier = vlib.tier()
    rep = vlib.Report('C15', 'translation_validation', tier)
    ps = program_set(tier, vlib.seed(), samples_quick=40, samples_thorough=600)
    rng = random.Random(vlib.seed() + 15)
    pool = ps['fixed'] + ps['verbatim'] + ps['conditional'][:: (8 if tier == 'quick' else 2)] + ps['sampled'] + \
        (rng.sample(ps['exhaustive'], min(len(ps['exhaustive']), 120)) if tier == 'quick' else ps['exhaustive'][::4])
    variants = VARIANTS if tier == 'thorough' else ['build', 'exec_definition', 'exec_CODE', 'build_untyped', 'identity_converter', 'wrapper_converter']
    from gram.enum import fork_nodes
    # the wrapping converter adds one fork per equation: keep it to programs with few joint paths
    items = [(p, v, None) for p in pool for v in variants
             if not (v.startswith('wrapper') and len(p) + fork_nodes(p) > (3 if tier == 'quick' else 4))]
    if tier == 'quick':   # the converters left out of the quick list, on the fixed programs with few joint paths
        items += [(p, v, None) for p in ps['fixed'] for v in ('guard_converter', 'guard_converter_exec', 'wrapper_converter_exec')
                  if len(p) + fork_nodes(p) <= 3]
    results = run_items(work, items, soft_items=ps['sampled'])
    import itertools
    hand_variants = ['build', 'exec_definition', 'exec_CODE', 'build_untyped', 'identity_converter'] if tier == 'thorough' else ['build', 'exec_definition_untyped']
    hand_items = [(perm, v) for perm in itertools.permutations(range(4)) for v in hand_variants]
    hand_results = run_items(hand_order_work, hand_items)
    results = results + hand_results
    for b in empty_model_case():
        rep.violation('empty-or-equationless:' + b[:40], b, {'case': b})
    for b in repeated_verbatim_case():
        rep.violation('repeated-verbatim:' + b[:40], b, {'case': b})
    p0 = (Eq(Var('Y'), Bin('+', Var('X', off=-1), Var('Z'))),)
    tw = [work((p0, 'exec_CODE', 'plus_one')), work((p0, 'wrapper_converter', 'plus_one')),
          hand_order_work(((0, 1, 2, 3), 'build', 'reversed_reference'))]
    c01_finish(rep, results, tw, {'pool': pool}, tier, extra={
        'variants': variants,
        'program_level_assertions': sum(r.get('program_level', 0) for r in results if 'harness_error' not in r),
        'rule': 'one case = (program, build variant); solver part: every joint path of the variant\'s _evaluate against the AST reference '
                '(wrapper converter: against store-only-if-positive semantics) over symbolic cells, t, L; concrete part: class attributes, '
                'lags/leads settings, converter call count/order, empty symbol list',
        'functions_encoded': ['fsic.parser.build_model', 'build_model_definition + exec', 'Model.CODE + exec', 'generated _evaluate of each variant'],
        'outside_claim': ['programs outside the enumerated/sampled set', 'verbatim-only programs', 'converters other than the four named (identity, store-if-positive wrapper, assertion guard, recording)'],
    })
    return rep.finish()


if __name__ == '__main__':
    sys.exit(main())
