"""C07, second part: the generated Fortran `solve_t` driven through the real `FortranEngine` wrapper.

The Fortran SOURCE that `build_fortran_definition` emits for a parser-built model is parsed and executed by `fsrc` over
symbolic cells (z3 Float64, uninterpreted arithmetic), symbolic `tol`, `min_iter` and `offset`; the engine object handed
to `FortranEngine.ENGINE` is that interpreter, so the wrapper's own Python (option checks, offset copy, error-code
mapping, statuses, iteration counts, exceptions) runs for real on top of it.  The reference is the state machine of
C02 (`loopmodel.ref_solve_t`) fed with per-pass values from the AST interpreter -- the same oracle the Python engine is
held to in C02, so "Fortran engine == Python engine" is decided through a common specification.

A mismatch is turned into concrete IEEE inputs and replayed on the MACHINE CODE: the same source compiled with gfortran,
loaded through ctypes with f2py's call signature, under the real wrapper, against the real Python engine.
"""
from __future__ import annotations

import contextlib
import time
import warnings
from typing import Any, Dict, List

import numpy as np
import z3

import fir
import fsic
import fsic.core.interfaces as finter
import fsic.fortran as ff
import fsrc
from checks import loopfam as lf
from gram import Bin, Call, Env, Eq, Layout, Neg, Num, Var, evaluation_order, interp, render
from gram.pipeline import REF_FUNCS, install_user_functions
from loopmodel import Script, ref_solve_t
from symx.core import Ctx, cur
from symx.src import ConSrc, SymSrc, witness
from symx.values import SFloat, fpval

PROGRAMS: Dict[str, tuple] = {
    'feedback': (Eq(Var('Y'), Bin('+', Bin('*', Var('a', 'p'), Var('Y')), Var('X'))),),
    'oscillate': (Eq(Var('Y'), Bin('-', Num('1'), Var('Y'))),),
    # the LAST check variable is the one that keeps moving (a convergence test that leaves it out stops early)
    'slowlast': (Eq(Var('A'), Var('X')), Eq(Var('B'), Bin('+', Bin('*', Var('g', 'p'), Var('B')), Var('A')))),
    'slowfirst': (Eq(Var('A'), Bin('+', Bin('*', Var('g', 'p'), Var('A')), Var('X'))), Eq(Var('B'), Var('X'))),
    'pair': (Eq(Var('A'), Bin('+', Bin('*', Num('0.5'), Var('B')), Var('X'))), Eq(Var('B'), Bin('*', Var('g', 'p'), Var('A')))),
    'laglead': (Eq(Var('Y'), Bin('+', Var('Y', off=-1), Var('Z', off=1))),),
    'sim': (Eq(Var('C'), Bin('+', Bin('*', Var('a1', 'p'), Var('YD')), Bin('*', Var('a2', 'p'), Var('H', off=-1)))),
            Eq(Var('YD'), Bin('-', Var('Y'), Var('T'))), Eq(Var('Y'), Bin('+', Var('C'), Var('G')))),
}


class PArr(np.ndarray):
    """2-D object array whose `.astype(float)` is the identity (the wrapper converts before calling the engine)."""

    def astype(self, dtype, *a, **k):   # noqa: D102
        if self.dtype == object and dtype is float:
            return self
        return np.asarray(self).astype(dtype, *a, **k)


class _InterNp:
    """Stand-in for the `np` global of fsic.core.interfaces: `values` stacks object series into a PArr."""

    def __getattr__(self, name):
        return getattr(np, name)

    def array(self, obj, *a, **k):
        if isinstance(obj, list) and obj and all(isinstance(x, np.ndarray) and x.dtype == object for x in obj):
            out = np.empty((len(obj), len(obj[0])), dtype=object)
            for i, row in enumerate(obj):
                out[i, :] = row
            return out.view(PArr)
        return np.array(obj, *a, **k)


_INTER = _InterNp()


@contextlib.contextmanager
def shimmed():
    o1, o2 = ff.np, finter.np
    ff.np = lf._SHIM
    finter.np = _INTER
    try:
        with lf.shimmed():
            yield
    finally:
        ff.np, finter.np = o1, o2


def probe_inputs(src, base: dict, n: int = 60, seed: int = 0):
    """When z3 cannot produce IEEE values for a symbolic mismatch in time (products of unknowns), the mismatch is still
    real at the level of the abstraction; look for a concrete demonstration among inputs built from a few ordinary values
    (the integer inputs keep the solver's values).  Only a demonstration that replays on the machine code is reported."""
    import random
    rng = random.Random(seed)
    nice = [0.0, 1.0, -1.0, 0.5, 2.0, 0.25, 1.5, 3.0, -0.5, 0.9, 0.1, 10.0, -2.0]
    tols = [1e-9, 1e-3, 0.3, 1.0, 5.0, 0.0]
    for _ in range(n):
        f = {k: (rng.choice(tols) if k == 'tol' else rng.choice(nice)) for k in src.floats}
        yield {'f': f, 'i': dict(base.get('i', {}))}


class SymEngine:
    """`FortranEngine.ENGINE` stand-in: executes the generated source with `fsrc` (f2py's call signature)."""

    def __init__(self, mod: fsrc.Module) -> None:
        self.mod = mod

    def solve_t(self, values, t, min_iter, max_iter, tol, offset, convergence_variables, error_control):
        nrows, ncols = values.shape
        A = fsrc.FArr([nrows, ncols], [values[i, j] for j in range(ncols) for i in range(nrows)])
        out = fsrc.FArr.full([nrows, ncols], None)
        fr = self.mod.call('solve_t', dict(initial_values=A, t=t, min_iter=min_iter, max_iter=max_iter, tol=tol, offset=offset,
                                           convergence_variables=fsrc.FArr.of_list(list(convergence_variables)),
                                           error_control=error_control, solved_values=out, converged=None, iteration=None,
                                           error_code=None, nrows=nrows, ncols=ncols, nvars=len(list(convergence_variables))))
        res = np.empty((nrows, ncols), dtype=object)
        for j in range(ncols):
            for i in range(nrows):
                res[i, j] = out.get([i + 1, j + 1])
        return res, fr['converged'], fr['iteration'], fr['error_code']


def _engine_solve(self, values, indexes, min_iter, max_iter, tol, offset, convergence_variables, failure_control, error_control):
    nrows, ncols = values.shape
    A = fsrc.FArr([nrows, ncols], [values[i, j] for j in range(ncols) for i in range(nrows)])
    out = fsrc.FArr.full([nrows, ncols], None)
    idx = list(indexes)
    n = len(idx)
    conv = fsrc.FArr.full([n], None)
    its = fsrc.FArr.full([n], None)
    codes = fsrc.FArr.full([n], None)
    self.mod.call('solve', dict(initial_values=A, indexes=fsrc.FArr.of_list(idx), min_iter=min_iter, max_iter=max_iter, tol=tol, offset=offset,
                                convergence_variables=fsrc.FArr.of_list(list(convergence_variables)), failure_control=failure_control,
                                error_control=error_control, solved_values=out, convergence_results=conv, iterations=its,
                                solution_error_codes=codes, nrows=nrows, ncols=ncols, nvars=len(list(convergence_variables)), nperiods=n))
    res = np.empty((nrows, ncols), dtype=object)
    for j in range(ncols):
        for i in range(nrows):
            res[i, j] = out.get([i + 1, j + 1])
    return res, list(conv.data), list(its.data), list(codes.data)


SymEngine.solve = _engine_solve


def cfgf(**kw) -> dict:
    c = dict(part='fsolve', prog='feedback', B=2, errors='raise', failures='raise', extra=1, t_off=0, neg=False, offset='zero',
             min_iter='sym', twin=None)
    c.update(kw)
    return c


_BUILD: Dict[str, Any] = {}


def _built(name: str):
    """(Python class, Fortran source, parsed source) of a program -- regenerated from /repo's code once per process."""
    if name not in _BUILD:
        install_user_functions()
        text = render(PROGRAMS[name], Layout())
        syms = fsic.parse_model(text)
        Py = fsic.build_model(syms)
        src = ff.build_fortran_definition(syms)
        _BUILD[name] = (Py, src, fsrc.load(src), text)
    return _BUILD[name]


def explore_fsolve(cfg: dict, replay_inputs=None) -> dict:
    t_start = time.time()
    prog = PROGRAMS[cfg['prog']]
    Py, fsource, fmod, text = _built(cfg['prog'])
    FE = type('FE', (ff.FortranEngine, Py), {'ENGINE': SymEngine(fmod)})
    names = list(Py.NAMES)
    B = cfg['B']
    L = Py.LAGS + Py.LEADS + 1 + cfg['extra']
    t_pos = Py.LAGS + cfg['t_off']
    if not (Py.LAGS <= t_pos <= L - 1 - Py.LEADS):
        raise ValueError('configuration addresses an infeasible period')
    t = t_pos - L if cfg['neg'] else t_pos
    order = evaluation_order(prog)
    check = [eq.target.name for eq in order]
    if check != list(Py.ENDOGENOUS) or list(Py.CHECK) != check:
        raise RuntimeError(f'evaluation order {check} != ENDOGENOUS {Py.ENDOGENOUS} / CHECK {Py.CHECK}')
    ctx = Ctx(budget_s=600)
    if cfg['min_iter'] == 'sym':
        ctx.assume(z3.And(z3.Int('min_iter') >= 0, z3.Int('min_iter') <= B + 1), f'0 <= min_iter <= max_iter+1 = {B + 1}')
    if cfg['offset'] == 'sym':
        ctx.assume(z3.And(z3.Int('offset') >= -L - 1, z3.Int('offset') <= L + 1), f'-L-1 <= offset <= L+1 (L={L})')
    holder: Dict[str, Any] = {}
    twin = cfg.get('twin')
    native: Dict[str, Any] = {}

    def native_class():
        if 'cls' not in native:
            cd = fir.compile_dump(fsource, want_so=True)
            if not cd['compiled']:
                raise RuntimeError('generated Fortran does not compile: ' + cd['stderr'][-300:])
            native['eng'] = fir.NativeEvaluate(cd['so_bytes'])
            native['cls'] = type('FN', (ff.FortranEngine, Py), {'ENGINE': native['eng']})
        return native['cls']

    def run(src, symbolic: bool):
        M = FE if symbolic else native_class()
        m = M(list(range(1990, 1990 + L)), dtype=object if symbolic else float)
        cells = {n: [src.f(f'{n}_{j}') for j in range(L)] for n in names}
        for n in names:
            for j in range(L):
                m.__dict__['_' + n][j] = cells[n][j]
        if cfg.get('inst_check') is not None:
            m.check = [check[k] for k in cfg['inst_check']]
        tol = src.f('tol')
        min_iter = src.i('min_iter') if cfg['min_iter'] == 'sym' else cfg['min_iter']
        offset = src.i('offset') if cfg['offset'] == 'sym' else 0
        # C07 is stated for finite data (the option lattice of C02): every check value, before and after each pass, finite
        if symbolic:
            for n in check:
                for j in range(L):
                    cur().require(cells[n][j].isfinite().t)
        kw = dict(min_iter=min_iter, max_iter=B, tol=tol, offset=offset, errors=cfg['errors'], failures=cfg['failures'])
        out: Dict[str, Any] = {}
        try:
            with warnings.catch_warnings():
                warnings.simplefilter('ignore')
                if symbolic:
                    with shimmed():
                        r = m.solve_t(t, **kw)
                else:
                    with np.errstate(all='ignore'):
                        r = m.solve_t(t, **kw)
            out.update(kind='ret', ret=r, exc=None)
        except fsrc.FBounds as e:
            out.update(kind='exc', ret=None, exc='OutOfBounds', msg=str(e))
        except fsrc.FUnsupported:
            raise       # Fortran the interpreter does not model: inconclusive, never a verdict
        except Exception as e:  # noqa: BLE001
            out.update(kind='exc', ret=None, exc=type(e).__name__, msg=str(e)[:160])
        out['status'], out['iters'] = str(m.status[t]), int(m.iterations[t])
        out['status_all'] = [str(x) for x in m.status]
        # reference: the state machine of C02 on per-pass values from the AST interpreter
        rcells = {n: [src.f(f'{n}_{j}') for j in range(L)] for n in names}
        ref_check = check if cfg.get('inst_check') is None else [check[k] for k in cfg['inst_check']]
        if isinstance(offset, int) and offset == 0:
            off_ok = True
        else:
            off_ok = bool((t_pos + offset >= 0)) and bool((t_pos + offset < L))
        scratch = {n: (list(v) if symbolic else np.array(v, dtype=float)) for n, v in rcells.items()}
        if off_ok and not (isinstance(offset, int) and offset == 0):
            src_pos = int(t_pos + (offset.__index__() if hasattr(offset, '__index__') else offset))
            for n in check:
                scratch[n][t_pos] = scratch[n][src_pos]
        sc = Script(len(check), B)
        if off_ok:
            for p in range(1, B + 1):
                vals = []
                for eq in order:
                    with np.errstate(all='ignore'):
                        v = interp(eq.expr, Env(scratch, t_pos, REF_FUNCS))
                    if symbolic:
                        cur().require(v.isfinite().t if isinstance(v, SFloat) else z3.BoolVal(bool(np.isfinite(v))))
                    vals.append(v)
                    scratch[eq.target.name][t_pos] = v
                sc.v[p] = vals
        ref = ref_solve_t(rcells, '-', -1, sc, t=t, L=L, min_iter=min_iter, max_iter=B, tol=tol, offset=offset, failures=cfg['failures'],
                          errors=cfg['errors'], cfe=True, endogenous=check, check=ref_check, targets=check)
        if twin:
            lf._falsify(ref, twin)      # reachability twin: a deliberately wrong oracle must be reported and replayed
        bad: List[str] = []
        if out['kind'] != ref.kind:
            bad.append(f"outcome Fortran engine={out['kind']}({out['exc'] or out['ret']}) reference={ref.kind}({ref.exc or ref.ret})")
        elif ref.kind == 'ret' and out['ret'] != ref.ret:
            bad.append(f"return Fortran engine={out['ret']} reference={ref.ret}")
        elif ref.kind == 'exc' and out['exc'] != ref.exc:
            bad.append(f"exception Fortran engine={out['exc']} reference={ref.exc}")
        if ref.status is not None and out['status'] != ref.status:
            bad.append(f"status[t] Fortran engine={out['status']!r} reference={ref.status!r}")
        if ref.iters is not None and out['iters'] != ref.iters:
            bad.append(f"iterations[t] Fortran engine={out['iters']} reference={ref.iters}")
        for j, s_ in enumerate(out['status_all']):
            if j != t_pos and s_ != '-':
                bad.append(f'status changed at position {j} != t')
        terms = []
        for n in names:
            for j in range(L):
                a, b = m.__dict__['_' + n][j], ref.cells[n][j]
                if symbolic:
                    at = a.t if isinstance(a, SFloat) else fpval(float(a))
                    bt = b.t if isinstance(b, SFloat) else fpval(float(b))
                    if not at.eq(bt) and cur()._check(at != bt) == 'sat':
                        bad.append(f'cell {n}[{j}] differs')
                        terms.append(at != bt)
                elif not lf._same_bits(float(a), float(b)):
                    bad.append(f'cell {n}[{j}] Fortran engine={float(a)!r} reference={float(b)!r}')
        return bad, terms, out

    def bounds_checked_replay(inp) -> List[str]:
        """The symbolic run found a subscript outside its array (undefined behaviour: the machine code reads or writes a
        neighbouring element without failing).  Confirm on the real code: the same source built with gfortran's own
        bounds checking (-fcheck=bounds), called through the real wrapper in a child process; the Fortran run-time
        aborts with the offending subscript."""
        import json as _json
        import os
        import shutil
        import subprocess
        import sys
        import tempfile
        d = tempfile.mkdtemp(prefix='fsic_bc_')
        try:
            with open(os.path.join(d, 'm.f95'), 'w') as f:
                f.write(fsource)
            p = subprocess.run(['gfortran', '-shared', '-fPIC', '-O0', '-fcheck=bounds', 'm.f95', '-o', 'm.so'], cwd=d, capture_output=True, text=True)
            if p.returncode != 0:
                return []
            script = (
                'import sys, json, ctypes, warnings\n'
                'import numpy as np\n'
                'import fsic, fsic.fortran as ff, fir\n'
                'from gram.pipeline import install_user_functions\n'
                'install_user_functions()\n'
                'a = json.load(open(sys.argv[1]))\n'
                'eng = fir.NativeEvaluate(open(sys.argv[2], "rb").read())\n'
                'Py = fsic.build_model(fsic.parse_model(a["text"]))\n'
                'M = type("FN", (ff.FortranEngine, Py), {"ENGINE": eng})\n'
                'm = M(list(range(1990, 1990 + a["L"])))\n'
                'for n, vals in a["cells"].items():\n'
                '    m[n] = [float(x) for x in vals]\n'
                'warnings.simplefilter("ignore")\n'
                'try:\n'
                '    m.solve_t(a["t"], **a["kw"])\n'
                'except Exception as e:\n'
                '    print("python exception", type(e).__name__)\n'
                'print("completed")\n')
            src_ = ConSrc(inp)
            args = {'text': text, 'L': L, 't': t, 'cells': {n: [float(src_.f(f'{n}_{j}')) for j in range(L)] for n in names},
                    'kw': dict(min_iter=int(src_.i('min_iter')) if cfg['min_iter'] == 'sym' else cfg['min_iter'], max_iter=B, tol=float(src_.f('tol')),
                               offset=int(src_.i('offset')) if cfg['offset'] == 'sym' else 0, errors=cfg['errors'], failures=cfg['failures'])}
            for k, v in args['cells'].items():
                args['cells'][k] = [x if np.isfinite(x) else 1.0 for x in v]
            if not np.isfinite(args['kw']['tol']):
                args['kw']['tol'] = 1e-6
            with open(os.path.join(d, 'args.json'), 'w') as f:
                _json.dump(args, f)
            with open(os.path.join(d, 'run.py'), 'w') as f:
                f.write(script)
            q = subprocess.run([sys.executable, 'run.py', 'args.json', 'm.so'], cwd=d, capture_output=True, text=True, timeout=120,
                               env=dict(os.environ, PYTHONPATH=os.pathsep.join(sys.path)))
            msg = [ln.strip() for ln in (q.stderr + q.stdout).splitlines() if 'Fortran runtime error' in ln or 'bound' in ln.lower()]
            if msg and 'completed' not in q.stdout:
                return ['bounds-checked build of the generated Fortran aborts: ' + ' '.join(msg)[:300]]
            return []
        finally:
            shutil.rmtree(d, ignore_errors=True)

    def python_engine(inp) -> Dict[str, Any]:
        """The same call on the real Python engine (for the report: the property compares the two engines)."""
        src = ConSrc(inp)
        m = Py(list(range(1990, 1990 + L)), dtype=float)
        for n in names:
            for j in range(L):
                m.__dict__['_' + n][j] = src.f(f'{n}_{j}')
        kw = dict(min_iter=src.i('min_iter') if cfg['min_iter'] == 'sym' else cfg['min_iter'], max_iter=B, tol=src.f('tol'),
                  offset=src.i('offset') if cfg['offset'] == 'sym' else 0, errors=cfg['errors'], failures=cfg['failures'])
        try:
            with warnings.catch_warnings(), np.errstate(all='ignore'):
                warnings.simplefilter('ignore')
                r = ('ret', m.solve_t(t, **kw))
        except Exception as e:  # noqa: BLE001
            r = ('exc', type(e).__name__)
        return {'outcome': r, 'status': str(m.status[t]), 'iterations': int(m.iterations[t]), 'values_at_t': {n: float(m[n][t]) for n in names}}

    def fn():
        src = SymSrc()
        holder['src'] = src
        return run(src, True)

    if replay_inputs is not None:   # ./vcheck replay: the stored inputs on the machine code, concretely
        try:
            cb, _, cout = run(ConSrc(replay_inputs), False)
            if not cb:
                cb = bounds_checked_replay(replay_inputs)
            return {'bad': cb, 'impl': cout, 'python_engine': python_engine(replay_inputs)}
        finally:
            if 'eng' in native:
                native['eng'].close()
    res: Dict[str, Any] = {'cfg': dict(cfg), 'paths': 0, 'mismatch_paths': 0, 'candidates': [], 'outcomes': {}, 'witness_checked': 0,
                           'witness_bad': [], 'spurious_under_uf': 0, 'nontrivial_paths': 0}
    try:
        for path in ctx.explore(fn):
            res['paths'] += 1
            if path.outcome[0] == 'exc':
                raise RuntimeError(f'harness raised on a path: {path.outcome[1]!r}')
            bad, terms, out = path.outcome[1]
            res['nontrivial_paths'] += 1
            okey = f"{out['kind']}:{out['exc'] or out['ret']}:{out['status']}:{out['iters']}"
            res['outcomes'][okey] = res['outcomes'].get(okey, 0) + 1
            if bad:
                res['mismatch_paths'] += 1
                if len([c for c in res['candidates'] if c['replay']['bad']]) >= 1 or len(res['candidates']) >= 4:
                    continue
                inp = witness(ctx, holder['src'], [z3.Or(*terms)] if terms and len(terms) == len(bad) else [], timeout_ms=12000, uf_fallback=True)
                if inp is None:
                    res['spurious_under_uf'] += 1
                    continue
                cb, _, cout = run(ConSrc(inp), False)
                if out.get('exc') == 'OutOfBounds' and not cb:
                    cb = bounds_checked_replay(inp)
                if not cb:
                    for alt in probe_inputs(holder['src'], inp, seed=res['paths']):
                        cb2, _, cout2 = run(ConSrc(alt), False)
                        if cb2:
                            inp, cb, cout = alt, cb2, cout2
                            break
                res['candidates'].append({'symbolic': bad, 'inputs': inp,
                                          'replay': {'bad': cb, 'impl': cout, 'ref': None, 'python_engine': python_engine(inp),
                                                     'text': text}})
    finally:
        if 'eng' in native:
            native['eng'].close()
    res['exhausted'] = ctx.exhausted
    res['smt_samples'] = list(ctx.samples)
    res['stats'] = ctx.stats.as_dict()
    res['assumptions'] = list(ctx.assumptions) + ['every check value (pre-existing and after each pass) finite [C07 is stated for finite data]',
                                                  'period t can hold the lags and leads (feasible period)']
    res['shim_calls'] = dict(fmod.calls)
    res['wall_s'] = round(time.time() - t_start, 3)
    return res


def explore_frange(cfg: dict, replay_inputs=None) -> dict:
    """Third part: FortranEngine.solve() (the generated `solve` routine, which calls `solve_t` per period) against the
    ordered sequence of FortranEngine.solve_t() calls on a twin -- C05's law for the Fortran engine.  Together with the
    second part (solve_t == specification) this ties the multi-period routine to the specification."""
    t_start = time.time()
    Py, fsource, fmod, text = _built(cfg['prog'])
    FE = type('FE', (ff.FortranEngine, Py), {'ENGINE': SymEngine(fmod)})
    names = list(Py.NAMES)
    B = cfg['B']
    L = Py.LAGS + Py.LEADS + cfg['n_periods']
    o0 = cfg.get('origin', 1990)
    span = list(range(o0, o0 + L))        # origin -1: the labels straddle zero (a falsy label is a label like any other)
    ctx = Ctx(budget_s=900)
    if cfg['min_iter'] == 'sym':
        ctx.assume(z3.And(z3.Int('min_iter') >= 0, z3.Int('min_iter') <= B + 1), f'0 <= min_iter <= max_iter+1 = {B + 1}')
    holder: Dict[str, Any] = {}
    twin = cfg.get('twin')
    native: Dict[str, Any] = {}
    check = list(Py.CHECK)

    def native_class():
        if 'cls' not in native:
            cd = fir.compile_dump(fsource, want_so=True)
            native['eng'] = fir.NativeEvaluate(cd['so_bytes'])
            native['cls'] = type('FN', (ff.FortranEngine, Py), {'ENGINE': native['eng']})
        return native['cls']

    def outcome(fn):
        try:
            with warnings.catch_warnings():
                warnings.simplefilter('ignore')
                return ('ret', fn())
        except fsrc.FBounds as e:
            return ('exc', 'OutOfBounds', str(e))
        except fsrc.FUnsupported:
            raise
        except Exception as e:  # noqa: BLE001
            return ('exc', type(e).__name__, str(e)[:120])

    def run(src, symbolic: bool):
        M = FE if symbolic else native_class()
        models = []
        for _ in range(2):
            m = M(list(span), dtype=object if symbolic else float)
            for n in names:
                for j in range(L):
                    m.__dict__['_' + n][j] = src.f(f'{n}_{j}')
            if cfg.get('inst_check') is not None:
                m.check = [check[k] for k in cfg['inst_check']]     # the INSTANCE's list of convergence variables, reassigned
            models.append(m)
        m1, m2 = models
        if symbolic:
            for n in check:
                for j in range(L):
                    cur().require(m1.__dict__['_' + n][j].isfinite().t)
        tol = src.f('tol')
        min_iter = src.i('min_iter') if cfg['min_iter'] == 'sym' else cfg['min_iter']
        kw = dict(min_iter=min_iter, max_iter=B, tol=tol, errors=cfg['errors'], failures=cfg['failures'])
        if cfg.get('offset'):
            kw['offset'] = cfg['offset']      # a non-zero offset (concrete): may point before / beyond the span for some periods
        rng = {}
        if cfg['start'] is not None:
            rng['start'] = span[cfg['start']]
        if cfg['end'] is not None:
            rng['end'] = span[cfg['end']]
        with (shimmed() if symbolic else np.errstate(all='ignore')):
            a = outcome(lambda: m1.solve(**rng, **kw))
            # the twin: single-period solves over the range the statement gives
            lo = Py.LAGS if cfg['start'] is None else cfg['start']
            hi = L - 1 - Py.LEADS if cfg['end'] is None else cfg['end']
            if twin == 'skip_last':
                hi -= 1

            def loop():
                labs, poss, flags = [], [], []
                for t in range(lo, hi + 1):
                    flags.append(m2.solve_t(t, **kw))
                    labs.append(span[t])
                    poss.append(t)
                return labs, poss, flags

            if bool(min_iter > B):
                b = ('exc', 'ValueError', '')
            else:
                b = outcome(loop)
        if symbolic:
            # finite data only: every check value of the twin stays finite
            for n in check:
                for j in range(L):
                    v = m2.__dict__['_' + n][j]
                    if isinstance(v, SFloat):
                        cur().require(v.isfinite().t)
        bad: List[str] = []
        if a[0] != b[0]:
            bad.append(f'solve() {a[:2]} but the sequence of solve_t() calls {b[:2]}')
        elif a[0] == 'exc' and a[1] != b[1]:
            bad.append(f'solve() raised {a[1]}, the sequence of solve_t() calls {b[1]}')
        elif a[0] == 'ret':
            (la, pa, fa), (lb, pb, fb) = a[1], b[1]
            if list(la) != list(lb) or list(pa) != list(pb):
                bad.append(f'periods {list(la)} / {list(pa)} vs {list(lb)} / {list(pb)}')
            elif [bool(x) for x in fa] != [bool(x) for x in fb]:
                bad.append(f'solved flags {list(fa)} vs {list(fb)}')
        s1, s2 = [str(x) for x in m1.status], [str(x) for x in m2.status]
        i1, i2 = [int(x) for x in m1.iterations], [int(x) for x in m2.iterations]
        if s1 != s2:
            bad.append(f'statuses {s1} vs {s2}')
        if i1 != i2:
            bad.append(f'iterations {i1} vs {i2}')
        terms = []
        for n in names:
            for j in range(L):
                x, y = m1.__dict__['_' + n][j], m2.__dict__['_' + n][j]
                if symbolic:
                    xt = x.t if isinstance(x, SFloat) else fpval(float(x))
                    yt = y.t if isinstance(y, SFloat) else fpval(float(y))
                    if not xt.eq(yt) and cur()._check(xt != yt) == 'sat':
                        bad.append(f'cell {n}[{j}] differs')
                        terms.append(xt != yt)
                elif not lf._same_bits(float(x), float(y)):
                    bad.append(f'cell {n}[{j}] solve()={float(x)!r} sequence={float(y)!r}')
        return bad, terms, {'solve': a[:2] if a[0] == 'exc' else ('ret', [list(map(str, a[1][0])), list(a[1][1]), [bool(x) for x in a[1][2]]]), 'status': s1, 'iters': i1}

    if replay_inputs is not None:
        try:
            cb, _, cout = run(ConSrc(replay_inputs), False)
            return {'bad': cb, 'impl': cout, 'python_engine': None}
        finally:
            if 'eng' in native:
                native['eng'].close()

    def fn():
        src = SymSrc()
        holder['src'] = src
        return run(src, True)

    res: Dict[str, Any] = {'cfg': dict(cfg), 'paths': 0, 'mismatch_paths': 0, 'candidates': [], 'outcomes': {}, 'witness_checked': 0,
                           'witness_bad': [], 'spurious_under_uf': 0, 'nontrivial_paths': 0}
    try:
        for path in ctx.explore(fn):
            res['paths'] += 1
            if path.outcome[0] == 'exc':
                raise RuntimeError(f'harness raised on a path: {path.outcome[1]!r}')
            bad, terms, out = path.outcome[1]
            res['nontrivial_paths'] += 1
            okey = f"{out['solve'][0]}:{out['solve'][1] if out['solve'][0] == 'exc' else ''}:{''.join(out['status'])}"
            res['outcomes'][okey] = res['outcomes'].get(okey, 0) + 1
            if bad:
                res['mismatch_paths'] += 1
                if len([c for c in res['candidates'] if c['replay']['bad']]) >= 1 or len(res['candidates']) >= 4:
                    continue
                inp = witness(ctx, holder['src'], [z3.Or(*terms)] if terms and len(terms) == len(bad) else [], timeout_ms=12000, uf_fallback=True)
                if inp is None:
                    res['spurious_under_uf'] += 1
                    continue
                cb, _, cout = run(ConSrc(inp), False)
                if not cb:
                    for alt in probe_inputs(holder['src'], inp, seed=res['paths']):
                        cb2, _, cout2 = run(ConSrc(alt), False)
                        if cb2:
                            inp, cb, cout = alt, cb2, cout2
                            break
                res['candidates'].append({'symbolic': bad, 'inputs': inp, 'replay': {'bad': cb, 'impl': cout, 'ref': None, 'python_engine': None, 'text': text}})
    finally:
        if 'eng' in native:
            native['eng'].close()
    res['exhausted'] = ctx.exhausted
    res['smt_samples'] = list(ctx.samples)
    res['stats'] = ctx.stats.as_dict()
    res['assumptions'] = list(ctx.assumptions) + ['every check value (pre-existing and after each pass) finite [C07 is stated for finite data]']
    res['shim_calls'] = dict(fmod.calls)
    res['wall_s'] = round(time.time() - t_start, 3)
    return res


def frange_configs(tier: str) -> List[dict]:
    out = []
    for prog in ('feedback', 'slowlast', 'laglead', 'pair'):
        for n_periods in (1, 2) if tier == 'quick' else (1, 2, 3):
            for B in (1, 2) if tier == 'quick' else (0, 1, 2):
                if n_periods == 3 and (B > 1 or prog == 'pair'):
                    continue
                for errors, failures in (('raise', 'raise'), ('raise', 'ignore'), ('skip', 'ignore'), ('ignore', 'raise')):
                    if tier == 'quick' and (errors, failures) == ('ignore', 'raise'):
                        continue
                    out.append(dict(part='frange', prog=prog, B=B, n_periods=n_periods, errors=errors, failures=failures, start=None, end=None,
                                    min_iter='sym', twin=None))
        # explicit start / end (positions inside the feasible range), reversed range
        out.append(dict(part='frange', prog=prog, B=1, n_periods=3, errors='raise', failures='ignore', start=None, end=None, min_iter=0, twin=None))
    for start, end in ((1, 1), (0, 1), (1, 0), (None, 0), (1, None)):
        out.append(dict(part='frange', prog='feedback', B=1, n_periods=2, errors='raise', failures='ignore', start=start, end=end, min_iter='sym', twin=None))
        # the same on a span whose labels straddle zero (-1, 0, 1): explicit bounds that are falsy labels
        out.append(dict(part='frange', prog='feedback', B=1, n_periods=3, errors='raise', failures='ignore', start=start, end=end, min_iter=0, twin=None,
                        origin=-1))
    # a non-zero offset: in span for some periods of the range, before / beyond the span for others (every error policy:
    # a period whose offset cannot be served raises IndexError and nothing after it may have been touched)
    for prog in ('feedback', 'laglead'):
        for off in (-1, 1):
            for errors, failures in (('raise', 'ignore'), ('skip', 'ignore'), ('ignore', 'ignore'), ('replace', 'raise')):
                for n_periods in (2, 3):
                    out.append(dict(part='frange', prog=prog, B=1, n_periods=n_periods, errors=errors, failures=failures, start=None, end=None,
                                    min_iter=0, twin=None, offset=off))
    # the instance's `check` list reassigned (a subset / another order of the class default)
    for prog, ic in (('slowlast', [0]), ('slowlast', [1]), ('slowfirst', [1]), ('pair', [1, 0])):
        for B in (1, 2):
            out.append(dict(part='frange', prog=prog, B=B, n_periods=2, errors='raise', failures='ignore', start=None, end=None, min_iter='sym', twin=None,
                            inst_check=ic))
    return out


FRANGE_TWINS = [dict(part='frange', prog='feedback', B=1, n_periods=2, errors='raise', failures='ignore', start=None, end=None, min_iter=0, twin='skip_last')]


def explore_fany(cfg: dict, replay_inputs=None) -> dict:
    return explore_frange(cfg, replay_inputs) if cfg.get('part') == 'frange' else explore_fsolve(cfg, replay_inputs)


def fsolve_configs(tier: str) -> List[dict]:
    out = []
    Bs = (0, 1, 2) if tier == 'quick' else (0, 1, 2, 3)
    for prog in PROGRAMS:
        for B in Bs:
            if prog == 'sim' and B > (1 if tier == 'quick' else 2):
                continue
            for errors in ('raise', 'skip', 'ignore', 'replace'):
                if errors != 'raise' and (tier == 'quick' and prog not in ('feedback', 'slowlast') or B == 0):
                    continue
                for failures in ('raise', 'ignore'):
                    if tier == 'quick' and failures == 'ignore' and errors != 'raise':
                        continue
                    for neg in (False, True):
                        if neg and (B != 1 or prog not in ('feedback', 'laglead', 'slowlast')):
                            continue
                        for offset in ('zero', 'sym'):
                            if offset == 'sym' and (prog not in ('feedback', 'slowlast', 'laglead') or B > 1 or errors != 'raise'):
                                continue
                            out.append(cfgf(prog=prog, B=B, errors=errors, failures=failures, neg=neg, offset=offset,
                                            extra=1 if prog != 'laglead' else 0))
    for prog, ic in (('slowlast', [0]), ('slowlast', [1]), ('slowfirst', [1]), ('pair', [1, 0])):
        for B in (1, 2):
            out.append(cfgf(prog=prog, B=B, failures='ignore', inst_check=ic))
    return out


TWINS = [cfgf(prog='slowlast', B=2, failures='ignore', twin='iters_off')]
