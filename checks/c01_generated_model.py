"""C01 -- the generated model evaluates exactly the equations written.

Per enumerated program (bounded-exhaustive trees + seeded samples; the program
dimension is NOT solver-quantified: CPython's `re` cannot be encoded) the real
parse_model + build_model run concretely; the generated `_evaluate(t)` then
runs on symbolic series: every cell of every series (Float64), the period t
and the span length L are z3 variables.  z3 decides, per joint path with the
AST reference interpreter: final series equal (array extensionality), write
set = targets, every access at t+k inside the span, normalised equation text
equivalent.  sat -> IEEE witness -> replay on real float64 arrays.
"""
from __future__ import annotations

import base64
import pickle

import sys
import time
from typing import Any, Dict

import vlib
from gram import LAYOUTS, Layout, RefError, classify, render, renderer_selfcheck
from gram.driver import add_stats, run_items
from gram.family import program_set, show
from gram.pipeline import equivalence, parse_and_build, replay_values

ERRMAP = {'SymbolError': 'SymbolError', 'ParserError': 'ParserError'}
LAY = {l.name: l for l in LAYOUTS}


def work(item) -> Dict[str, Any]:
    t0 = time.time()
    r = _work(item)
    r['wall_s'] = round(time.time() - t0, 2)
    return r


def _work(item) -> Dict[str, Any]:
    prog, lay_name, twin = item[:3]
    lay = LAY[lay_name]
    for h in (item[3] if len(item) > 3 else ()):
        # HISTORY: programs parsed, built and evaluated earlier in this process (results not examined here)
        hp = parse_and_build(render(h, lay))
        if 'Model' in hp:
            try:
                hp['Model'](range(-3, 4))._evaluate(3)
            except Exception:  # noqa: BLE001
                pass
    text = render(prog, lay)
    out: Dict[str, Any] = {'prog': show(prog), 'layout': lay_name, 'bad': [], 'paths': 0, 'stats': {}, 'status': 'ok'}
    if not all(renderer_selfcheck(eq.expr, lay) for eq in prog):
        return {'harness_error': f'renderer self-check failed for {show(prog)!r} under {lay_name}', 'item': show(prog)}
    try:
        ref = classify(prog)
    except RefError as e:
        pb = parse_and_build(text)
        out['status'] = 'rejected_as_expected' if pb.get('error') == e.kind else 'illegal_program_not_rejected'
        if out['status'] != 'rejected_as_expected':
            out['bad'].append({'what': f'illegal program ({e.kind}) gave {pb.get("error", "a model")}', 'replayed': True,
                               'replay': {'text': text}})
        return out
    pb = parse_and_build(text)
    if 'error' in pb:
        out['status'] = 'rejected'
        out['bad'].append({'what': f'program inside the grammar rejected: {pb["error"]}: {pb["msg"]}', 'replayed': True,
                           'replay': {'text': text}})
        return out
    if twin:
        prog = _falsify(prog, twin)
    from gram import Var as _V, walk as _walk
    has_offset = any(isinstance(n, _V) and n.off for eq in prog for n in _walk(eq.expr))
    # the negative spelling of t matters where some access is offset from t; elsewhere it is run for every 8th program
    spellings = ('pos', 'neg') if (has_offset or vlib.tier() == 'thorough' or __import__("zlib").crc32(show(prog).encode()) % 8 == 0) else ('pos',)
    for spelling in spellings:
        r = equivalence(prog, ref, pb['Model'], pb['symbols'], spelling=spelling)
        out['paths'] += r['paths']
        add_stats(out['stats'], r['stats'])
        out['assumptions'] = r['assumptions']
        if not r['exhausted']:
            return {'harness_error': f'exploration not exhaustive for {show(prog)!r}', 'item': show(prog)}
        out['spurious'] = out.get('spurious', 0) + r['spurious']
        for b in r['bad']:
            rb = replay_values(prog, pb['Model'], b['witness'], symbols=pb['symbols'], seed=vlib.seed())
            out['bad'].append({'what': '; '.join(b['symbolic'][:3]) + f' [{spelling}]', 'replayed': bool(rb),
                               'replay': {'text': text, 'witness': b['witness'], 'concrete': rb, 'program_pickle': base64.b64encode(pickle.dumps(prog)).decode()}})
    return out


def _falsify(prog, twin):
    """Reachability twins: a deliberately wrong reference program."""
    from gram import Bin, Eq, Num, Var

    eq = prog[0]
    if twin == 'lag_off':
        def shift(e):
            import dataclasses
            if isinstance(e, Var):
                return Var(e.name, e.kind, e.off - 1)
            if dataclasses.is_dataclass(e):
                return type(e)(**{f.name: (shift(getattr(e, f.name)) if not isinstance(getattr(e, f.name), (str, tuple)) else
                                           (tuple(shift(a) for a in getattr(e, f.name)) if isinstance(getattr(e, f.name), tuple) else getattr(e, f.name)))
                                  for f in dataclasses.fields(e)})
            return e
        return (Eq(eq.target, shift(eq.expr)),) + tuple(prog[1:])
    if twin == 'plus_one':
        return (Eq(eq.target, Bin('+', eq.expr, Num('1'))),) + tuple(prog[1:])
    return prog


def main() -> int:
    tier = vlib.tier()
    rep = vlib.Report('C01', 'translation_validation', tier)
    ps = program_set(tier, vlib.seed())
    items = []
    for k in ('fixed', 'verbatim', 'exhaustive', 'conditional', 'sampled', 'illegal'):
        for p in ps[k]:
            items.append((p, 'plain', None))
    for p in ps['fixed'] + ps['sampled'][: (40 if tier == 'quick' else 400)]:
        items.append((p, 'wide', None))
    for p in ps['fixed']:
        items.append((p, 'tight', None))
    from gram.enum import HISTORY_PAIRS
    for hist, p in HISTORY_PAIRS:
        for lay in ('plain', 'tight'):
            items.append((p, lay, None, hist))
    results = run_items(work, items, soft_items=ps['sampled'])
    from gram import Bin, Eq, Num, Var
    twins = [((Eq(Var('Y'), Bin('+', Var('X', off=-1), Var('Z'))),), 'plain', 'lag_off'),
             ((Eq(Var('Y'), Bin('*', Var('X'), Num('2'))),), 'plain', 'plus_one')]
    tw = [work(t) for t in twins]
    finish(rep, results, tw, ps, tier)
    return rep.finish()


def finish(rep, results, tw, ps, tier, extra=None):
    tot: Dict[str, Any] = {}
    counts = {'ok': 0, 'rejected_as_expected': 0, 'rejected': 0, 'illegal_program_not_rejected': 0}
    samples, progs_with_paths, disagreements, spurious = [], 0, 0, 0
    assumptions = set()
    for r in results:
        if 'harness_error' in r:
            rep.error(f"{r['harness_error']} ({r.get('item')})")
            continue
        counts[r['status']] = counts.get(r['status'], 0) + 1
        add_stats(tot, r.get('stats', {}))
        spurious += r.get('spurious', 0)
        assumptions.update(r.get('assumptions', []))
        if r['paths']:
            progs_with_paths += 1
        for b in r['bad']:
            disagreements += 1
            if b['replayed']:
                rep.violation(finding_key(r, b), f"{r['prog']!r}: {b['what']}", dict(b['replay'], program=r['prog'], layout=r['layout']))
            else:
                rep.error(f"solver counterexample did not reproduce on the real code: {r['prog']!r}: {b['what']}")
        if len(samples) < 8 and r['paths'] and len(r['prog']) > 12:
            samples.append({'program': r['prog'], 'layout': r['layout'], 'joint_paths': r['paths'], 'queries': r['stats']})
    rep.coverage['slowest_cases'] = sorted(((r.get('wall_s', 0), r.get('prog', '')[:120], r.get('layout')) for r in results if 'harness_error' not in r), reverse=True)[:5]
    twin_rep = []
    for t in tw:
        hit = 'harness_error' not in t and any(b['replayed'] for b in t['bad'])
        twin_rep.append({'program': t.get('prog'), 'detected_and_replayed': hit})
        if not hit:
            rep.error(f'reachability twin not detected: {t}')
    rep.assumptions = sorted(assumptions)
    rep.coverage.update({
        'programs': len(results),
        'disagreements_checked': disagreements,
        'samples': samples,
        'evaluations': tot.get('paths', 0),
        'distinct_nontrivial': progs_with_paths,
        'rule': 'programs: bounded-exhaustive expression trees + fixed multi-equation programs + seeded samples; one '
                'evaluation = one joint path of generated _evaluate(t) and AST reference over symbolic cells, t, L; '
                'distinct_nontrivial = distinct programs accepted and explored on at least one path',
        'program_sets': {k: len(v) for k, v in ps.items()},
        'program_status': counts,
        'exhaustive': False,
        'functions_encoded': ['generated Model._evaluate (from fsic.parser.parse_model + build_model, regenerated per run)',
                              'Symbol.equation text (executed as Python)'],
        'bounds': {'expression_nodes_exhaustive': 3 if tier == 'quick' else '3 (full vocabulary) / 4 (reduced vocabulary)',
                   'sampled_programs': len(ps.get('sampled', [])), 'equations_per_program': '1..5',
                   'cells_t_L': 'unbounded (z3 Array Int->Float64, Int t, Int L; both spellings of t)'},
        'symbolic_inputs': ['every cell of every series', 'period position t', 'span length L'],
        'stubs': {'series': 'symx.zseries.ZSeries (z3 array with NumPy 1-D index semantics)',
                  'arithmetic': 'uninterpreted + - * / ** exp log sqrt myexp; interpreted comparisons, abs, neg, constants'},
        'queries': {k: tot.get(k, 0) for k in ('sat', 'unsat', 'unknown')},
        'solver_s': round(tot.get('solver_s', 0.0), 2),
        'paths': tot.get('paths', 0),
        'spurious_under_uf': spurious,
        'reachability_twin': twin_rep,
        'outside_claim': ['programs outside the enumerated/sampled set (the program dimension is enumerated, not solver-quantified)',
                          'scientific-notation literals', 'names used both as function and as variable',
                          'whole-statement verbatim blocks (partial verbatim fragments are covered by three fixed programs)', 'named-period string indexes'],
    })
    if extra:
        rep.coverage.update(extra)


def finding_key(r, b) -> str:
    return f"{r['prog']}|{r['layout']}|{b['what'][:60]}"


if __name__ == '__main__':
    sys.exit(main())
