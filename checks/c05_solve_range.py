"""C05 -- solve() equals the ordered sequence of single-period solves; failures
are contained.

Real code: SolverMixin.solve / iter_periods / solve_period, PeriodIter,
VectorContainer._locate_period_in_span (+ fallback), BaseModel.solve_t
underneath.  Symbolic: per-period per-pass values (all Float64) and fault
kinds, start / end / span labels (integers: present anywhere, duplicated or
absent), tol, min_iter.  Oracle: a twin model driven by an explicit loop of
solve_t calls over the range computed from the statement.
"""
from __future__ import annotations

import sys
import contextlib
import time
import warnings
from typing import Any, Dict, List, Optional

import numpy as np
import z3

import fsic.core.models as fmodels
import vlib
from checks import loopfam as lf
from checks.loopdriver import run_family
from loopmodel import Script, check_names, make_scripted
from symx.core import Ctx, Inconclusive, cur, timed_check
from symx.values import SFloat, SInt, SLabel, fpval, model_float, model_int, to_ieee

STR_LABELS = ['a', 'b', 'c', 'd']


MAX_CANDIDATES = 3  # IEEE confirmations + replays per configuration (further mismatching paths are only counted)


def cfg5(**kw) -> dict:
    c = dict(N=1, B=1, L=3, errors='raise', failures='raise', cfe=True, with_z=False,
             span='list_sym',   # list_sym | range | nd_obj_sym | nd_int | list_str
             start='none', end='none',   # 'none' | 'sym' | concrete label
             offset=0, lags=0, leads=0, faults=False, finite=False,
             entry='solve',     # solve | solve_period
             distinct=False,    # assume pairwise distinct span labels
             tracer=False,      # TracerMixin model solved with trace=True (C17: any solve method)
             twin=None)
    c.update(kw)
    return c


def _span_and_labels(cfg):
    """(span object, list of label values by position)."""
    L, kind = cfg['L'], cfg['span']
    if kind == 'list_sym':
        labs = [SLabel(f'lab_{j}') for j in range(L)]
        return list(labs), labs
    if kind == 'nd_obj_sym':
        labs = [SLabel(f'lab_{j}') for j in range(L)]
        arr = np.empty(L, dtype=object)
        for j, x in enumerate(labs):
            arr[j] = x
        return arr, labs
    if kind == 'range':
        return range(2000, 2000 + L), list(range(2000, 2000 + L))
    if kind == 'range_step':   # a stepped range: labels are not start + position
        return range(2000, 2000 + 5 * L, 5), list(range(2000, 2000 + 5 * L, 5))
    if kind == 'nd_int':
        return np.arange(2000, 2000 + L), list(range(2000, 2000 + L))
    if kind == 'list_str':
        return STR_LABELS[:L], STR_LABELS[:L]
    raise ValueError(kind)


def _bound(cfg, which):
    v = cfg[which]
    if v == 'none':
        return None
    if v == 'sym':
        return SLabel(which)
    return v


def _scripts(cfg, symbolic=True, inp=None):
    L, N, B = cfg['L'], cfg['N'], cfg['B']
    out = {}
    for tc in range(L):
        s = Script(N, B, with_z=False)
        for p in range(1, B + 1):
            if symbolic:
                s.v[p] = [SFloat(f'v_{tc}_{p}_{i}') for i in range(N)]
                if cfg['faults']:
                    s.kind[p] = SInt(f'kind_{tc}_{p}')
                    s.fs[p] = SInt(f'fs_{tc}_{p}')
            else:
                s.v[p] = [np.float64(x) for x in inp['v'][tc][p]]
                s.kind[p] = inp['kind'][tc][p]
                s.fs[p] = inp['fs'][tc][p]
        out[tc] = s
    return out


def _cells(cfg, symbolic=True, inp=None):
    names = check_names(cfg['N']) + ['X']
    if symbolic:
        return {n: [SFloat(f'{n}_{j}') for j in range(cfg['L'])] for n in names}
    return {n: [np.float64(x) for x in inp['cells'][n]] for n in names}


_TRACED: dict = {}


def _model(cfg, span, cells, scripts, dtype, staged=False):
    cl, cd = cfg.get('class_lags', cfg['lags']), cfg.get('class_leads', cfg['leads'])
    M = make_scripted(cfg['N'], with_z=False, lags=cl, leads=cd)
    if cfg.get('tracer'):
        key = (cfg['N'], cl, cd)
        if key not in _TRACED:
            from fsic.extensions.model import TracerMixin
            _TRACED[key] = type('TracedScripted', (TracerMixin, M), {})
        M = _TRACED[key]
    if staged and cfg.get('stage'):
        m = _staged(cfg, M, span, cells, dtype)
    else:
        m = M(span, dtype=dtype)
        for n, vals in cells.items():
            arr = m.__dict__['_' + n]
            for j, v in enumerate(vals):
                arr[j] = v
    if 'class_lags' in cfg or 'class_leads' in cfg:
        # the INSTANCE's lag / lead lengths differ from the class constants (the object-level attributes decide)
        m.lags, m.leads = cfg['lags'], cfg['leads']
    m.attach(Script(cfg['N'], cfg['B']), scripts)
    if cfg.get('presolved'):
        # a model that has been solved before: later periods must keep these marks when an earlier period fails
        m.status[:] = '.'
        m.iterations[:] = 7
    return m


def _staged(cfg, M, span, cells, dtype):
    """The model under test reached through a HISTORY (cfg['stage'] = 'reindex' | 'copy'): built on a span with one more
    period in front (so that every label sits at another position), every period and every label of the final span
    solved before -- by default range, by explicit start / end, by solve_period -- then reindexed to the final span (or
    copied), series installed by whole-series assignment, marks reset.  Positions, lengths or arrays remembered from
    before are stale."""
    labels = list(span)
    kind = cfg['span']
    if cfg['stage'] == 'reindex' and labels and not kind.endswith('_sym'):
        first = labels[0]
        pre = 'zz0' if isinstance(first, str) else first - (labels[1] - first if len(labels) > 1 else 1)
        wide_l = [pre] + labels
        wide = np.array(wide_l) if kind.startswith('nd_') else (range(wide_l[0], wide_l[-1] + 1, wide_l[1] - wide_l[0]) if kind.startswith('range') else wide_l)
    else:
        wide = span
    m = M(wide, dtype=dtype)
    m.attach(Script(cfg['N'], 2), {})
    kw = dict(max_iter=2, failures='ignore', errors='ignore')
    with (lf.shimmed() if dtype is object else contextlib.nullcontext()), warnings.catch_warnings():
        warnings.simplefilter('ignore')
        def again():
            m.attach(Script(cfg['N'], 2), {})   # the scripted passes start over for every call
            return m

        if len(list(wide)) > cfg['lags'] + cfg['leads']:
            again().solve(**kw)
        if not kind.endswith('_sym'):
            feas = labels[cfg['lags']:len(labels) - cfg['leads']]
            for lab in feas:
                again().solve(start=lab, end=lab, **kw)
                again().solve_period(lab, **kw)
            if feas:
                again().solve(start=feas[0], **kw)
                again().solve(end=feas[-1], **kw)
    m = m.reindex(span) if cfg['stage'] == 'reindex' else m.copy()
    for n, vals in cells.items():
        setattr(m, n, list(vals))
    m.status = '-'
    m.iterations = -1
    return m


def _opts(cfg, tol, min_iter):
    o = dict(min_iter=min_iter, max_iter=cfg['B'], tol=tol, offset=cfg['offset'], failures=cfg['failures'],
             errors=cfg['errors'], catch_first_error=cfg['cfe'])
    if cfg.get('tracer'):
        o['trace'] = True
    return o


def _trace_diff(cfg, m1, m2, symbolic) -> List[str]:
    """solve(trace=True) must leave the same traces as the sequence of solve_t(trace=True) calls."""
    bad = []
    for j in range(cfg['L']):
        a, b = m1.trace[j], m2.trace[j]
        if list(a.index) != list(b.index):
            bad.append(f'trace labels of period {j}: {list(a.index)} vs {list(b.index)}')
            continue
        if a.values.shape != b.values.shape:
            bad.append(f'trace shape of period {j}: {a.values.shape} vs {b.values.shape}')
            continue
        for x, y in zip(a.values.flat, b.values.flat):
            if symbolic:
                xt, yt = lf_term(x), lf_term(y)
                if not xt.eq(yt) and cur()._check(xt != yt) == 'sat':
                    bad.append(f'trace values of period {j} differ')
                    break
            elif not lf._same_bits(float(x), float(y)):
                bad.append(f'trace values of period {j} differ')
                break
    return bad


def _run(fn):
    try:
        with warnings.catch_warnings():
            warnings.simplefilter('ignore')
            return ('ret', fn())
    except Exception as e:  # noqa: BLE001
        return ('exc', type(e).__name__, str(e)[:120])


def _pos_first(labels, x):
    """First position whose label equals x (reference label map); None if absent."""
    for j, lab in enumerate(labels):
        if bool(lab == x):
            return j
    return None


def _pos_single(labels, x):
    """NumPy-array spans: a label that matches several positions "does not resolve to a single position" (None)."""
    hits = [j for j, lab in enumerate(labels) if bool(lab == x)]
    return hits[0] if len(hits) == 1 else None


def _reference(cfg, m2, labels, start, end, tol, min_iter):
    """The statement, executed on the twin `m2` with single-period solves."""
    L = cfg['L']
    _pos_first = _pos_single if cfg['span'].startswith('nd_') else globals()['_pos_first']
    m2.__dict__['_attempted'] = []
    if cfg['entry'] == 'solve_period':
        j = _pos_first(labels, start)
        if j is None:
            return ('exc', 'KeyError', '')
        m2.__dict__['_attempted'].append(j)
        return _run(lambda: m2.solve_t(j, **_opts(cfg, tol, min_iter)))
    if bool(min_iter > cfg['B']):
        return ('exc', 'ValueError', '')
    if L == 0:
        # an unknown explicit label on an empty span is a KeyError as well; both are acceptable orders
        return ('exc', 'SolutionError|KeyError', '')
    ps = pe = None
    if start is not None:
        ps = _pos_first(labels, start)
        if ps is None:
            return ('exc', 'KeyError', '')
    if end is not None:
        pe = _pos_first(labels, end)
        if pe is None:
            return ('exc', 'KeyError', '')
    if ps is None:
        ps = cfg['lags']          # first period with enough lags
        if ps >= L:
            return ('exc', 'IndexError|KeyError|SolutionError', '')
    if pe is None:
        pe = L - 1 - cfg['leads']  # last period with enough leads
        if pe < 0:
            return ('exc', 'IndexError|KeyError|SolutionError', '')

    def loop():
        labs, poss, flags = [], [], []
        for t in range(ps, pe + 1):
            m2.__dict__['_attempted'].append(t)
            flags.append(m2.solve_t(t, **_opts(cfg, tol, min_iter)))
            labs.append(labels[t])
            poss.append(t)
        return labs, poss, flags

    return _run(loop)


def _same_outcome(a, b, labels_identity=True) -> Optional[str]:
    if a[0] != b[0]:
        return f'outcome kind {a[:2]} vs {b[:2]}'
    if a[0] == 'exc':
        if a[1] not in b[1].split('|'):
            return f'exception {a[1]} vs {b[1]}'
        return None
    ra, rb = a[1], b[1]
    if isinstance(rb, tuple):
        la, pa, fa = ra
        lb, pb, fb = rb
        if list(pa) != list(pb):
            return f'positions {pa} vs {pb}'
        if list(fa) != list(fb):
            return f'solved flags {fa} vs {fb}'
        if len(la) != len(lb) or any(x is not y and not _lab_eq(x, y) for x, y in zip(la, lb)):
            return f'labels {la} vs {lb}'
        return None
    if ra != rb:
        return f'return {ra} vs {rb}'
    return None


def _lab_eq(x, y) -> bool:
    if isinstance(x, SInt) and isinstance(y, SInt):
        return x.t.eq(y.t)  # the very labels of the span, or copies of them (a copied / reindexed model holds copies)
    if isinstance(x, SInt) or isinstance(y, SInt):
        return False
    return x == y


def explore5(cfg: dict) -> dict:
    t_start = time.time()
    ctx = Ctx(budget_s=900)
    L, N, B = cfg['L'], cfg['N'], cfg['B']
    # domain assumptions
    sc = _scripts(cfg)
    for tc in range(L):
        for p in range(1, B + 1):
            if isinstance(sc[tc].kind[p], SInt):
                ctx.assume(z3.And(sc[tc].kind[p].t >= 0, sc[tc].kind[p].t <= 4), 'fault kind in {none,RuntimeWarning,raise,raise SolutionError,UserWarning}')
                ctx.assume(z3.And(sc[tc].fs[p].t >= 0, sc[tc].fs[p].t <= max(N, 1) - 1), 'fault statement in range')
    ctx.assume(z3.And(z3.Int('min_iter') >= 0, z3.Int('min_iter') <= B + 1), '0 <= min_iter <= max_iter+1')
    _, labs0 = _span_and_labels(cfg)
    if cfg['distinct'] and labs0 and isinstance(labs0[0], SInt):
        ctx.assume(z3.Distinct(*[x.t for x in labs0]), 'span labels pairwise distinct')
    if cfg['finite']:
        fin = [c.isfinite().t for n in check_names(N) for c in _cells(cfg)[n]]
        fin += [v.isfinite().t for tc in range(L) for p in range(1, B + 1) for v in sc[tc].v[p]]
        if fin:
            ctx.assume(z3.And(*fin), 'all check values finite')
    twin = cfg.get('twin')

    def fn():
        tol, min_iter = SFloat('tol'), SInt('min_iter')
        start, end = _bound(cfg, 'start'), _bound(cfg, 'end')
        span1, labels1 = _span_and_labels(cfg)
        span2, labels2 = _span_and_labels(cfg)
        m1 = _model(cfg, span1, _cells(cfg), _scripts(cfg), object, staged=True)
        m2 = _model(cfg, span2, _cells(cfg), _scripts(cfg), object)
        with lf.shimmed():
            if cfg['entry'] == 'solve_period':
                a = _run(lambda: m1.solve_period(start, **_opts(cfg, tol, min_iter)))
            else:
                kw = {}
                if start is not None:
                    kw['start'] = start
                if end is not None:
                    kw['end'] = end
                a = _run(lambda: m1.solve(**kw, **_opts(cfg, tol, min_iter)))
            b = _reference(cfg, m2, labels1, start, end, tol, min_iter)
        if twin == 'skip_last' and b[0] == 'ret' and isinstance(b[1], tuple) and b[1][1]:
            b = ('ret', (b[1][0][:-1], b[1][1][:-1], b[1][2][:-1]))
        bad = []
        d = _same_outcome(a, b)
        if d:
            bad.append(d)
        c = cur()
        cell_bad = []
        for n in m1.names:
            for j in range(L):
                x, y = lf_term(m1.__dict__['_' + n][j]), lf_term(m2.__dict__['_' + n][j])
                if not x.eq(y) and c._check(x != y) == 'sat':
                    cell_bad.append((n, j, x, y))
        if [str(s) for s in m1.status] != [str(s) for s in m2.status]:
            bad.append(f'status {list(m1.status)} vs {list(m2.status)}')
        if [int(s) for s in m1.iterations] != [int(s) for s in m2.iterations]:
            bad.append(f'iterations {list(m1.iterations)} vs {list(m2.iterations)}')
        t1 = m1._script_state()['tlog']
        t2 = m2._script_state()['tlog']
        if twin == 'order' and len(t2) > 1:
            t2 = list(reversed(t2))
        if t1 != t2:
            bad.append(f'order of hook/evaluation calls {t1} vs {t2}')
        if cfg.get('tracer'):
            bad += _trace_diff(cfg, m1, m2, True)
        # explicit containment: after an exception, periods never visited are bit-identical to the start
        visited = set(m2.__dict__['_attempted'])
        init = _cells(cfg)
        for n in m1.names:
            for j in range(L):
                if j in visited:
                    continue
                x, y = lf_term(m1.__dict__['_' + n][j]), init[n][j].t
                if not x.eq(y) and c._check(x != y) == 'sat':
                    bad.append(f'unvisited period {j}: {n} changed')
        n_eval = sum(1 for e in t1 if e[0] == 'eval')
        return {'bad': bad, 'cell_bad': cell_bad, 'a': _pub(a), 'b': _pub(b), 'n_eval': n_eval,
                'visited': sorted(visited)}

    res: Dict[str, Any] = {'cfg': dict(cfg), 'paths': 0, 'mismatch_paths': 0, 'candidates': [], 'outcomes': {},
                           'witness_checked': 0, 'witness_bad': [], 'spurious_under_uf': 0, 'nontrivial_paths': 0}
    for path in ctx.explore(fn):
        res['paths'] += 1
        rec = path.outcome
        if rec[0] == 'exc':
            raise RuntimeError(f'harness raised on a path: {rec[1]!r}')
        r = rec[1]
        okey = f"{r['a'][0]}:{r['a'][1] if r['a'][0] == 'exc' else r['a'][1]}:{r['visited']}"
        res['outcomes'][okey] = res['outcomes'].get(okey, 0) + 1
        if r['n_eval'] >= 1:
            res['nontrivial_paths'] += 1
        if r['bad'] or r['cell_bad']:
            res['mismatch_paths'] += 1
            if len(res['candidates']) + res['spurious_under_uf'] >= MAX_CANDIDATES:
                continue
            extra = []
            if not r['bad']:
                extra = [z3.Or(*[x != y for (_, _, x, y) in r['cell_bad']])]
            inp = _witness(ctx, cfg, extra)
            if inp is None:
                res['spurious_under_uf'] += 1
                continue
            rep = replay5(cfg, inp)
            res['candidates'].append({'symbolic': r['bad'] + [f'cell {n}[{j}]' for n, j, _, _ in r['cell_bad']],
                                      'inputs': inp, 'replay': rep})
    res['exhausted'] = ctx.exhausted
    res['smt_samples'] = list(ctx.samples)
    res['stats'] = ctx.stats.as_dict()
    res['assumptions'] = list(ctx.assumptions)
    res['shim_calls'] = dict(lf._SHIM.calls)
    res['wall_s'] = round(time.time() - t_start, 3)
    return res


def lf_term(x):
    return x.t if isinstance(x, SFloat) else fpval(float(x))


def _pub(o):
    if o[0] == 'exc':
        return ('exc', o[1])
    r = o[1]
    if isinstance(r, tuple):
        return ('ret', (len(r[0]), list(r[1]), list(r[2])))
    return ('ret', r)


def _witness(ctx: Ctx, cfg: dict, extra: list) -> Optional[dict]:
    s = z3.Solver()
    s.set('timeout', 60000)
    cache: dict = {}
    for a in ctx.solver.assertions():
        s.add(to_ieee(a, cache))
    for e in extra:
        s.add(to_ieee(e, cache))
    r = timed_check(s, 30.0)
    ctx.stats.queries[r] = ctx.stats.queries.get(r, 0) + 1
    if r == 'unsat':
        return None
    if r != 'sat':
        raise Inconclusive('IEEE confirmation returned ' + r)
    m = s.model()
    L, N, B = cfg['L'], cfg['N'], cfg['B']
    cells = _cells(cfg)
    sc = _scripts(cfg)
    inp: Dict[str, Any] = {'cells': {n: [model_float(m, c.t) for c in cells[n]] for n in cells}}
    inp['v'] = [[[model_float(m, x.t) if isinstance(x, SFloat) else float(x) for x in sc[tc].v[p]] for p in range(B + 1)] for tc in range(L)]
    inp['kind'] = [[model_int(m, k.t) if isinstance(k, SInt) else int(k) for k in sc[tc].kind] for tc in range(L)]
    inp['fs'] = [[model_int(m, k.t) if isinstance(k, SInt) else int(k) for k in sc[tc].fs] for tc in range(L)]
    inp['tol'] = model_float(m, z3.FP('tol', z3.Float64()))
    inp['min_iter'] = model_int(m, z3.Int('min_iter'))
    _, labs = _span_and_labels(cfg)
    inp['labels'] = [model_int(m, x.t) if isinstance(x, SInt) else x for x in labs]
    for w in ('start', 'end'):
        b = _bound(cfg, w)
        inp[w] = model_int(m, b.t) if isinstance(b, SInt) else b
    return inp


def _concrete_span(cfg, inp):
    kind = cfg['span']
    if kind == 'list_sym':
        return list(inp['labels'])
    if kind == 'nd_obj_sym':
        return np.array(inp['labels'], dtype=object)
    return _span_and_labels(cfg)[0]


def replay5(cfg: dict, inp: dict) -> dict:
    assert fmodels.np is np
    tol, min_iter = inp['tol'], inp['min_iter']
    start, end = inp['start'], inp['end']
    m1 = _model(cfg, _concrete_span(cfg, inp), _cells(cfg, False, inp), _scripts(cfg, False, inp), float, staged=True)
    m2 = _model(cfg, _concrete_span(cfg, inp), _cells(cfg, False, inp), _scripts(cfg, False, inp), float)
    labels = list(inp['labels'])
    if cfg['entry'] == 'solve_period':
        a = _run(lambda: m1.solve_period(start, **_opts(cfg, tol, min_iter)))
    else:
        kw = {}
        if start is not None:
            kw['start'] = start
        if end is not None:
            kw['end'] = end
        a = _run(lambda: m1.solve(**kw, **_opts(cfg, tol, min_iter)))
    b = _reference(cfg, m2, labels, start, end, tol, min_iter)
    twin = cfg.get('twin')
    if twin == 'skip_last' and b[0] == 'ret' and isinstance(b[1], tuple) and b[1][1]:
        b = ('ret', (b[1][0][:-1], b[1][1][:-1], b[1][2][:-1]))
    bad = []
    d = _same_outcome(a, b)
    if d:
        bad.append(d)
    for n in m1.names:
        for j in range(cfg['L']):
            if not lf._same_bits(float(m1[n][j]), float(m2[n][j])):
                bad.append(f'cell {n}[{j}] solve()={m1[n][j]!r} sequence={m2[n][j]!r}')
    if [str(s) for s in m1.status] != [str(s) for s in m2.status]:
        bad.append(f'status {list(m1.status)} vs {list(m2.status)}')
    if [int(s) for s in m1.iterations] != [int(s) for s in m2.iterations]:
        bad.append(f'iterations {list(m1.iterations)} vs {list(m2.iterations)}')
    t1, t2 = m1._script_state()['tlog'], m2._script_state()['tlog']
    if twin == 'order' and len(t2) > 1:
        t2 = list(reversed(t2))
    if t1 != t2:
        bad.append(f'order of calls {t1} vs {t2}')
    if cfg.get('tracer'):
        bad += _trace_diff(cfg, m1, m2, False)
    return {'impl': _pub(a), 'ref': _pub(b), 'bad': bad}


def configs(tier: str):
    out = []
    Ls = (1, 2, 3) if tier == 'quick' else (1, 2, 3, 4, 5)
    for span in ('list_sym', 'range', 'nd_obj_sym', 'nd_int', 'list_str', 'range_step'):
        for L in Ls:
            for (start, end) in (('none', 'none'), ('sym', 'sym'), ('sym', 'none'), ('none', 'sym')):
                if span == 'list_str':
                    se = {'none': ['none'], 'sym': STR_LABELS[:L] + ['zz']}
                    pairs = [(s_, e_) for s_ in se[start] for e_ in se[end]]
                else:
                    pairs = [(start, end)]
                for (s_, e_) in pairs:
                    for errors, failures in (('raise', 'raise'), ('skip', 'ignore'), ('ignore', 'ignore'), ('replace', 'raise')):
                        if tier == 'quick' and L == 3 and errors in ('ignore',) and span not in ('list_sym',):
                            continue
                        for B in ((1,) if tier == 'quick' or L >= 4 else (1, 2)):
                            if L == 5 and (span not in ('list_sym', 'range') or errors not in ('raise', 'skip')):
                                continue
                            if B == 2 and (span not in ('list_sym', 'range') or L > 3):
                                continue
                            # explicit labels on an ndarray span with repeated labels "do not resolve to a single
                            # position": KeyError by the statement (the reference counts the matches)
                            out.append(cfg5(span=span, L=L, start=s_, end=e_, errors=errors, failures=failures, B=B,
                                            faults=(L <= 2 and B == 1)))
    # models solved before (statuses / iteration counts already set): containment must leave later periods as they were
    for span in ('range', 'list_sym'):
        for L in (2, 3):
            for errors, failures in (('raise', 'raise'), ('ignore', 'raise'), ('skip', 'ignore')):
                out.append(cfg5(span=span, L=L, errors=errors, failures=failures, presolved=True, faults=(L == 2 or tier == 'thorough')))
                out.append(cfg5(span=span, L=L, start='sym', end='sym', errors=errors, failures=failures, presolved=True))
    # tracer-extended models: solve(trace=True) == the sequence of solve_t(trace=True), traces included
    for span in ('range', 'list_sym'):
        for L in (2, 3):
            for errors, failures in (('raise', 'raise'), ('skip', 'ignore'), ('ignore', 'ignore')):
                out.append(cfg5(span=span, L=L, errors=errors, failures=failures, tracer=True, faults=(L == 2)))
                out.append(cfg5(span=span, L=L, start='sym', end='sym', errors=errors, failures=failures, tracer=True))
    # empty span
    for span in ('range', 'list_str', 'nd_int'):
        for st in ('none', 'sym' if span != 'list_str' else 'zz'):
            out.append(cfg5(span=span, L=0, start=st))
    # lags / leads defaults (distinct labels: default range = feasible periods)
    for span in ('list_sym', 'range', 'nd_obj_sym'):
        for lags, leads in ((1, 0), (0, 1), (1, 1), (2, 0)):
            for L in (2, 3):
                out.append(cfg5(span=span, L=L, lags=lags, leads=leads, distinct=True, errors='ignore', failures='ignore'))
                out.append(cfg5(span=span, L=L, lags=lags, leads=leads, distinct=False, errors='ignore', failures='ignore'))
    # instance-level lags / leads set below or above the class constants
    for span in ('list_sym', 'range'):
        for (cl, cd, il, id_) in ((2, 0, 1, 0), (1, 1, 0, 0), (0, 2, 0, 1), (0, 0, 1, 1), (2, 1, 0, 1)):
            for L in (3, 4):
                out.append(cfg5(span=span, L=L, class_lags=cl, class_leads=cd, lags=il, leads=id_, distinct=True, errors='ignore', failures='ignore'))
    # offsets
    for off in (-1, 1):
        for span in ('range', 'list_sym'):
            out.append(cfg5(span=span, L=3, offset=off, start='sym', end='sym', errors='ignore', failures='ignore'))
            out.append(cfg5(span=span, L=3, offset=off, lags=1 if off < 0 else 0, leads=1 if off > 0 else 0,
                            errors='raise', failures='raise', distinct=True))
    # solve_period
    for span in ('list_sym', 'range', 'nd_obj_sym', 'nd_int', 'range_step'):
        for L in (1, 2, 3):
            for errors in ('raise', 'skip'):
                out.append(cfg5(span=span, L=L, entry='solve_period', start='sym', errors=errors, faults=True))
    for lab in STR_LABELS[:3] + ['zz']:
        out.append(cfg5(span='list_str', L=3, entry='solve_period', start=lab))
    for span, labs in (('range', [1999, 2000, 2001, 2002, 2003]), ('range_step', [1995, 2000, 2003, 2005, 2010, 2015]), ('nd_int', [1999, 2000, 2002, 2003])):
        for lab in labs:
            out.append(cfg5(span=span, L=3, entry='solve_period', start=lab))
            out.append(cfg5(span=span, L=3, entry='solve', start=lab, end='none', errors='ignore', failures='ignore'))
            out.append(cfg5(span=span, L=3, entry='solve', start='none', end=lab, errors='ignore', failures='ignore'))
    # HISTORIES: the same questions asked of a model that has been solved before over another span and then reindexed /
    # copied (labels have moved; a label of the old span may be gone)
    for stage in ('reindex', 'copy'):
        for span, labs in (('range', [1999, 2000, 2001, 2002]), ('range_step', [1995, 2000, 2005, 2010]), ('nd_int', [1999, 2000, 2002]),
                           ('list_str', ['zz0'] + STR_LABELS[:3])):
            for lab in labs:
                out.append(cfg5(span=span, L=3, entry='solve_period', start=lab, stage=stage))
                out.append(cfg5(span=span, L=3, entry='solve', start=lab, end='none', errors='ignore', failures='ignore', stage=stage))
                out.append(cfg5(span=span, L=3, entry='solve', start='none', end=lab, errors='ignore', failures='ignore', stage=stage))
            out.append(cfg5(span=span, L=3 if tier == 'thorough' and span == 'range' else 2, stage=stage, errors='skip', failures='ignore', faults=True))
            out.append(cfg5(span=span, L=3, stage=stage, errors='skip', failures='ignore'))
            if span == 'range':
                out.append(cfg5(span=span, L=3, stage=stage, lags=1, leads=1, errors='ignore', failures='ignore'))
        out.append(cfg5(span='list_sym', L=2, start='sym', end='sym', stage=stage, errors='ignore', failures='ignore'))
    return out


TWINS = [
    cfg5(span='range', L=2, start='sym', end='sym', errors='ignore', failures='ignore', twin='skip_last'),
    cfg5(span='list_sym', L=2, errors='ignore', failures='ignore', twin='order'),
]


def finding_key(cfg: dict, cand: dict) -> str:
    bad = cand['replay']['bad']
    first = bad[0] if bad else '?'
    if cfg['span'] in ('nd_int', 'nd_obj_sym') and 'KeyError' in first:
        return f"numpy-span:{cfg['entry']}:KeyError"
    if not cfg['distinct'] and (cfg['lags'] or cfg['leads']) and cfg['start'] == 'none' and cfg['span'] in ('list_sym', 'nd_obj_sym'):
        return f"duplicate-labels-default-range:{cfg['span']}"
    return (f"span={cfg['span']},L={cfg['L']},start={cfg['start']},end={cfg['end']},errors={cfg['errors']},"
            f"entry={cfg['entry']},lags={cfg['lags']},leads={cfg['leads']},offset={cfg['offset']}:{first}")


def default_options_case() -> List[str]:
    """solve(), solve_period() and solve_t() called WITHOUT options must mean the same options: the defaults in the three
    signatures agree (a concrete assertion on the real signatures; 'identical ... with the same options' includes the
    options nobody passes)."""
    import inspect

    import fsic
    bad = []
    sigs = {'solve': inspect.signature(fsic.BaseModel.solve), 'solve_period': inspect.signature(fsic.BaseModel.solve_period),
            'solve_t': inspect.signature(fsic.BaseModel.solve_t)}
    base = sigs['solve_t'].parameters
    for name in ('min_iter', 'max_iter', 'tol', 'offset', 'failures', 'errors', 'catch_first_error'):
        vals = {k: (sg.parameters[name].default if name in sg.parameters else '<absent>') for k, sg in sigs.items()}
        if len({repr(v) for v in vals.values() if v != '<absent>'}) > 1 or name not in base:
            bad.append(f'default of `{name}` differs between the entry points: {vals}')
    return bad


def main() -> int:
    tier = vlib.tier()
    rep = vlib.Report('C05', 'model_checking', tier)
    for b in default_options_case():
        rep.violation('defaults:' + b[:60], b, {'case': b})
    run_family(
        rep, configs(tier), TWINS,
        functions=['fsic.core.interfaces.SolverMixin.solve', 'SolverMixin.iter_periods', 'SolverMixin.solve_period',
                   'fsic.core.interfaces.PeriodIter', 'fsic.core.containers.VectorContainer._locate_period_in_span',
                   'VectorContainer._locate_period_in_span_fallback', 'fsic.core.models.BaseModel.solve_t'],
        bounds={'span_length': '0..3 (thorough 5)', 'max_iter': '1 (thorough 2 for short spans)', 'check_variables': 1,
                'span_types': ['list of symbolic integer labels', 'range', 'object ndarray of symbolic labels',
                               'int64 ndarray', 'list of str'],
                'start_end': 'symbolic integers (any value: present, duplicated, absent) or omitted',
                'values': 'every Float64 per period and pass; symbolic fault kind per period and pass',
                'lags_leads': '0..2 / 0..1', 'offset': [-1, 0, 1]},
        outside=['pandas Index / PeriodIndex spans (compiled get_loc; labels resolving to slices exist only there)',
                 'more than one check variable', 'max_iter > 2'],
        key_fn=finding_key, explore=explore5,
    )
    return rep.finish()


if __name__ == '__main__':
    sys.exit(main())
