"""C03 -- variable classification, ordering and lag/lead lengths.

Solver-decided obligations:
 1. merge algebra of Symbol.combine over symbolic lags/leads (inductive step,
    so any number of mentions in any order), all type pairs enumerated;
 2. LAGS/LEADS arithmetic of build_model_definition over symbolic per-symbol
    lags/leads and symbolic lags=/leads=/min_lags=/min_leads= (the rendered
    integers are mapped back to their z3 terms);
 3. default solution range of iter_periods over symbolic lags/leads attributes
    equals the set of periods that can hold them.
Concrete side assertion (no solver; reported separately): per enumerated
program, name lists, order, LAGS/LEADS and error classes equal the reference
classification.
"""
from __future__ import annotations

import builtins
import itertools
import os
import re
import sys
import time
from typing import Any, Dict, List

import z3

import fsic
import fsic.parser as fparser
import vlib
from gram import LAYOUTS, Layout, RefError, classify, render
from gram.driver import add_stats, run_items
from gram.family import program_set, show
from gram.pipeline import parse_and_build, static_compare
from symx import values as sv
from symx.core import Ctx, Inconclusive, ReplayDiverged, cur
from symx.values import SInt

T = fparser.Type
VARLIKE = (T.VARIABLE, T.EXOGENOUS, T.ENDOGENOUS)


def _shadow_type():
    fparser.type = lambda x: int if isinstance(x, SInt) else builtins.type(x)


def _unshadow_type():
    if 'type' in fparser.__dict__:
        del fparser.__dict__['type']


def _run(fn):
    try:
        return ('ret', fn())
    except Exception as e:  # noqa: BLE001
        return ('exc', type(e).__name__)


def _zmin(*ts):
    out = ts[0]
    for t in ts[1:]:
        out = z3.If(t < out, t, out)
    return out


def _zmax(*ts):
    out = ts[0]
    for t in ts[1:]:
        out = z3.If(t > out, t, out)
    return out


# -- 1. merge algebra -------------------------------------------------------------------------------
def merge_case(item) -> Dict[str, Any]:
    ta, tb, mode, eqs, twin = item
    ctx = Ctx(budget_s=120)
    a, b, k, a2, b2 = (z3.Int(n) for n in ('a', 'b', 'k', 'a2', 'b2'))
    ctx.assume(z3.And(a <= 0, b >= 0), 'accumulated symbol: lags = min(0, offsets so far) <= 0 <= leads = max(0, offsets so far)')
    if mode == 'acc':
        ctx.assume(z3.And(a2 <= 0, b2 >= 0), 'second accumulated symbol likewise')
    old_eq, new_eq = eqs
    bad: List[Any] = []

    def fn():
        if mode == 'first':     # s.combine(s): the first mention of a name
            s1 = fparser.Symbol('N', ta, SInt(k), SInt(k), old_eq, old_eq)
            s2 = s1
            want_l, want_d = _zmin(k, 0), _zmax(k, 0)
        elif mode == 'mention':  # accumulated symbol meets one more mention with offset k
            s1 = fparser.Symbol('N', ta, SInt(a), SInt(b), old_eq, old_eq)
            s2 = fparser.Symbol('N', tb, SInt(k), SInt(k), new_eq, new_eq)
            want_l, want_d = _zmin(a, k), _zmax(b, k)
        else:                    # two accumulated symbols (merging equations in parse_model)
            s1 = fparser.Symbol('N', ta, SInt(a), SInt(b), old_eq, old_eq)
            s2 = fparser.Symbol('N', tb, SInt(a2), SInt(b2), new_eq, new_eq)
            want_l, want_d = _zmin(a, a2), _zmax(b, b2)
        if twin:
            want_l = want_l - 1
        r = _run(lambda: s1.combine(s2))
        # expected by the statement
        t1, t2 = s1.type, s2.type
        if t1 != t2 and not (t1 in VARLIKE and t2 in VARLIKE):
            want = ('exc', 'SymbolError')
        elif s1.equation is not None and s2.equation is not None and s1.equation != s2.equation:
            want = ('exc', 'ParserError')
        else:
            want = ('ret', max(t1, t2))
        out = []
        if r[0] != want[0] or (r[0] == 'exc' and r[1] != want[1]):
            out.append(f'combine {t1.name}+{t2.name}: impl={r if r[0] == "exc" else "symbol"} ref={want}')
        elif r[0] == 'ret':
            sym = r[1]
            if sym.type != want[1]:
                out.append(f'type {sym.type.name} != {want[1].name}')
            lt = sym.lags.t if isinstance(sym.lags, SInt) else z3.IntVal(sym.lags)
            dt = sym.leads.t if isinstance(sym.leads, SInt) else z3.IntVal(sym.leads)
            c = cur()
            if c._check(lt != want_l) == 'sat':
                out.append('lags is not the minimum of 0 and all offsets')
            if c._check(dt != want_d) == 'sat':
                out.append('leads is not the maximum of 0 and all offsets')
            eq_want = s1.equation if s1.equation is not None else s2.equation
            if sym.equation != eq_want or sym.code != eq_want or sym.name != 'N':
                out.append('equation/code/name not carried over')
        return out

    _shadow_type()
    try:
        paths = 0
        for path in ctx.explore(fn):
            paths += 1
            if path.outcome[0] == 'exc':
                raise RuntimeError(repr(path.outcome[1]))
            if path.outcome[1]:
                m = path.model()
                vals = {str(d): m[d].as_long() for d in m.decls()}
                bad.append({'what': '; '.join(path.outcome[1]), 'values': vals})
    finally:
        _unshadow_type()
    # replay
    for b_ in bad:
        b_['replayed'] = _replay_merge(item, b_['values'])
    return {'kind': 'merge', 'item': f'{ta.name}+{tb.name}/{mode}/{eqs}', 'paths': paths, 'stats': ctx.stats.as_dict(),
            'bad': bad, 'assumptions': ctx.assumptions, 'exhausted': ctx.exhausted}


def _replay_merge(item, v) -> bool:
    ta, tb, mode, eqs, twin = item
    old_eq, new_eq = eqs
    g = lambda n: v.get(n, 0)  # noqa: E731
    if mode == 'first':
        s1 = fparser.Symbol('N', ta, g('k'), g('k'), old_eq, old_eq)
        s2 = s1
        wl, wd = min(g('k'), 0), max(g('k'), 0)
    elif mode == 'mention':
        s1 = fparser.Symbol('N', ta, g('a'), g('b'), old_eq, old_eq)
        s2 = fparser.Symbol('N', tb, g('k'), g('k'), new_eq, new_eq)
        wl, wd = min(g('a'), g('k')), max(g('b'), g('k'))
    else:
        s1 = fparser.Symbol('N', ta, g('a'), g('b'), old_eq, old_eq)
        s2 = fparser.Symbol('N', tb, g('a2'), g('b2'), new_eq, new_eq)
        wl, wd = min(g('a'), g('a2')), max(g('b'), g('b2'))
    if twin:
        wl -= 1
    r = _run(lambda: s1.combine(s2))
    t1, t2 = s1.type, s2.type
    if t1 != t2 and not (t1 in VARLIKE and t2 in VARLIKE):
        return r != ('exc', 'SymbolError')
    if s1.equation is not None and s2.equation is not None and s1.equation != s2.equation:
        return r != ('exc', 'ParserError')
    if r[0] != 'ret':
        return True
    return (r[1].lags, r[1].leads, r[1].type) != (wl, wd, max(t1, t2))


# -- 2. LAGS / LEADS arithmetic ------------------------------------------------------------------------
def lagslead_case(item) -> Dict[str, Any]:
    n_sym, lags_mode, leads_mode, hints, twin = item
    ctx = Ctx(budget_s=120)
    ls = [z3.Int(f'l{i}') for i in range(n_sym)]
    ds = [z3.Int(f'd{i}') for i in range(n_sym)]
    for l, d in zip(ls, ds):
        ctx.assume(z3.And(l <= 0, d >= 0), 'symbol lags <= 0 <= leads (established by the merge algebra)')
    LG, LD, ML, MD = z3.Int('lags_arg'), z3.Int('leads_arg'), z3.Int('min_lags'), z3.Int('min_leads')
    types = [T.ENDOGENOUS, T.EXOGENOUS, T.PARAMETER, T.ERROR]
    bad: List[Any] = []

    def build(symbolic: bool, v=None):
        g = (lambda z: SInt(z)) if symbolic else (lambda z: v.get(str(z), 0))
        syms = []
        for i in range(n_sym):
            ty = types[i % 4]
            eq = (f'S{i}[t] = 1', f'self._S{i}[t] = 1') if ty == T.ENDOGENOUS else (None, None)
            syms.append(fparser.Symbol(f'S{i}', ty, g(ls[i]), g(ds[i]), eq[0], eq[1]))
        syms.append(fparser.Symbol('exp', T.FUNCTION, None, None, None, None))
        kw: Dict[str, Any] = {'with_type_hints': hints}
        if lags_mode == 'given':
            kw['lags'] = g(LG)
        if leads_mode == 'given':
            kw['leads'] = g(LD)
        if lags_mode == 'min':
            kw['min_lags'] = g(ML)
        if leads_mode == 'min':
            kw['min_leads'] = g(MD)
        return syms, kw

    def want_terms():
        wl = LG if lags_mode == 'given' else _zmax(*([-l for l in ls] + [z3.IntVal(0)] + ([ML] if lags_mode == 'min' else [z3.IntVal(0)])))
        wd = LD if leads_mode == 'given' else _zmax(*(list(ds) + [z3.IntVal(0)] + ([MD] if leads_mode == 'min' else [z3.IntVal(0)])))
        if twin:
            wl = wl + 1
        return wl, wd

    def fn():
        syms, kw = build(True)
        start = len(sv.FORMAT_TOKENS)
        text = fsic.build_model_definition(syms, **kw)
        out = []
        got = {}
        for name in ('LAGS', 'LEADS'):
            m = re.search(rf'^\s*{name}(?:: int)? = (.+)$', text, re.M)
            tok = m.group(1).strip()
            mt = re.fullmatch(r'__SINT_(\d+)__', tok)
            got[name] = sv.FORMAT_TOKENS[int(mt.group(1))] if mt else z3.IntVal(int(tok))
        wl, wd = want_terms()
        c = cur()
        if c._check(got['LAGS'] != wl) == 'sat':
            out.append('LAGS differs from: lags= if given else max(deepest lag, min_lags)')
        if c._check(got['LEADS'] != wd) == 'sat':
            out.append('LEADS differs from: leads= if given else max(furthest lead, min_leads)')
        del sv.FORMAT_TOKENS[start:]
        return out

    paths = 0
    for path in ctx.explore(fn):
        paths += 1
        if path.outcome[0] == 'exc':
            raise RuntimeError(repr(path.outcome[1]))
        if path.outcome[1]:
            m = path.model()
            vals = {str(d): m[d].as_long() for d in m.decls()}
            # replay concretely
            syms, kw = build(False, vals)
            text = fsic.build_model_definition(syms, **kw)
            gl = int(re.search(r'^\s*LAGS(?:: int)? = (.+)$', text, re.M).group(1))
            gd = int(re.search(r'^\s*LEADS(?:: int)? = (.+)$', text, re.M).group(1))
            g = lambda z: vals.get(str(z), 0)  # noqa: E731
            wl = g(LG) if lags_mode == 'given' else max([-g(l) for l in ls] + [0] + ([g(ML)] if lags_mode == 'min' else []))
            wd = g(LD) if leads_mode == 'given' else max([g(d) for d in ds] + [0] + ([g(MD)] if leads_mode == 'min' else []))
            if twin:
                wl += 1
            bad.append({'what': '; '.join(path.outcome[1]), 'values': vals, 'replayed': (gl, gd) != (wl, wd),
                        'concrete': {'LAGS': gl, 'LEADS': gd, 'want': (wl, wd)}})
    return {'kind': 'lagsleads', 'item': str(item), 'paths': paths, 'stats': ctx.stats.as_dict(), 'bad': bad,
            'assumptions': ctx.assumptions, 'exhausted': ctx.exhausted}


# -- 2b. the same symbols built repeatedly with other options (nothing remembered from an earlier build) --------------
def rebuild_case(item) -> Dict[str, Any]:
    mode, hints = item
    ctx = Ctx(budget_s=120)
    A1, A2 = z3.Int('opt_first'), z3.Int('opt_second')
    ctx.assume(z3.And(A1 >= 0, A1 <= 4, A2 >= 0, A2 <= 4), 'option values of the two builds in 0..4')
    bad: List[Any] = []
    key = {'min_lags': 'min_lags', 'min_leads': 'min_leads', 'lags': 'lags', 'leads': 'leads'}[mode]

    def symbols():
        # deepest lag 2, furthest lead 1 (value-equal symbols each time)
        return [fparser.Symbol('Y', T.ENDOGENOUS, -2, 0, 'Y[t] = X[t-2] + Z[t+1]', 'self._Y[t] = self._X[t-2] + self._Z[t+1]'),
                fparser.Symbol('X', T.EXOGENOUS, -2, 0, None, None), fparser.Symbol('Z', T.EXOGENOUS, 0, 1, None, None)]

    def want(v):
        lags, leads = 2, 1
        if mode == 'min_lags':
            lags = _zmax(z3.IntVal(2), v)
        elif mode == 'min_leads':
            leads = _zmax(z3.IntVal(1), v)
        elif mode == 'lags':
            lags = v
        else:
            leads = v
        return lags, leads

    def read(text, start):
        got = {}
        for name in ('LAGS', 'LEADS'):
            tok = re.search(rf'^\s*{name}(?:: int)? = (.+)$', text, re.M).group(1).strip()
            mt = re.fullmatch(r'__SINT_(\d+)__', tok)
            got[name] = sv.FORMAT_TOKENS[int(mt.group(1))] if mt else z3.IntVal(int(tok))
        return got

    def fn():
        out = []
        start = len(sv.FORMAT_TOKENS)
        c = cur()
        for which, a in (('first', A1), ('second', A2), ('third (defaults)', None)):
            kw = {'with_type_hints': hints}
            if a is not None:
                kw[key] = SInt(a)
            text = fsic.build_model_definition(symbols(), **kw)
            got = read(text, start)
            wl, wd = want(a) if a is not None else (z3.IntVal(2), z3.IntVal(1))
            if c._check(z3.Or(got['LAGS'] != wl, got['LEADS'] != wd)) == 'sat':
                out.append(f'{which} build with {key}: LAGS/LEADS are not what these options give')
        del sv.FORMAT_TOKENS[start:]
        return out

    def concrete(v1, v2, what):
            res = []
            for a in (v1, v2, None):
                kw = {'with_type_hints': hints}
                if a is not None:
                    kw[key] = a
                text = fsic.build_model_definition(symbols(), **kw)
                gl = re.search(r'^\s*LAGS(?:: int)? = (.+)$', text, re.M).group(1).strip()
                gd = re.search(r'^\s*LEADS(?:: int)? = (.+)$', text, re.M).group(1).strip()
                # (text left over from an earlier, symbolic build is itself a stale result: it stays a string and differs)
                gl, gd = (int(gl) if gl.lstrip('-').isdigit() else gl), (int(gd) if gd.lstrip('-').isdigit() else gd)
                wl, wd = 2, 1
                if a is not None:
                    wl, wd = {'min_lags': (max(2, a), 1), 'min_leads': (2, max(1, a)), 'lags': (a, 1), 'leads': (2, a)}[mode]
                res.append(((gl, gd), (wl, wd)))
            bad.append({'what': what, 'values': {'mode': mode, 'first': v1, 'second': v2, 'builds (got, want)': str(res)},
                        'replayed': any(g != w for g, w in res)})

    paths = 0
    diverged = False
    try:
        for path in ctx.explore(fn):
            paths += 1
            if path.outcome[0] == 'exc':
                raise RuntimeError(repr(path.outcome[1]))
            if path.outcome[1] and len(bad) < 3:
                m = path.model()
                v1 = m.eval(A1, model_completion=True).as_long()
                v2 = m.eval(A2, model_completion=True).as_long()
                if v1 == v2:   # a stale result is only visible when the options differ
                    m2 = path.model(A1 != A2)
                    if m2 is not None:
                        v1, v2 = m2.eval(A1, model_completion=True).as_long(), m2.eval(A2, model_completion=True).as_long()
                concrete(v1, v2, '; '.join(path.outcome[1]))
    except ReplayDiverged as e:
        # the builder did not behave as a function of (symbols, options) when re-executed: it remembers earlier builds.
        # The solver cannot enumerate paths of such code; the concrete sequences below decide (and replay) instead.
        diverged = True
        for v1, v2 in ((0, 4), (4, 0), (1, 3), (3, 3)):
            concrete(v1, v2, f'builder is not a function of its arguments ({e}); concrete sequence of builds')
        if not any(b['replayed'] for b in bad):
            raise Inconclusive(f're-execution diverged ({e}) but no concrete build sequence shows a wrong result')
    return {'kind': 'rebuild', 'item': str(item), 'paths': max(paths, 1), 'stats': ctx.stats.as_dict(), 'bad': bad,
            'assumptions': ctx.assumptions, 'exhausted': ctx.exhausted or diverged}


# -- 2c. option values of NumPy integer types (np.int64(5) is an explicit lags= like 5 is) --------------------------------
def npint_case(item) -> Dict[str, Any]:
    import numpy as np
    hints = item
    out = {'kind': 'npint', 'item': f'numpy-integer options hints={hints}', 'paths': 1, 'stats': {}, 'bad': [], 'assumptions': [], 'exhausted': True}

    def symbols():
        return [fparser.Symbol('Y', T.ENDOGENOUS, -2, 0, 'Y[t] = X[t-2] + Z[t+1]', 'self._Y[t] = self._X[t-2] + self._Z[t+1]'),
                fparser.Symbol('X', T.EXOGENOUS, -2, 0, None, None), fparser.Symbol('Z', T.EXOGENOUS, 0, 1, None, None)]

    for ty in (np.int64, np.int32, np.uint8, np.intp):
        for kw, want in (({'lags': 5}, (5, 1)), ({'lags': 0}, (0, 1)), ({'leads': 4}, (2, 4)), ({'leads': 0}, (2, 0)), ({'min_lags': 3}, (3, 1)),
                         ({'min_leads': 3}, (2, 3)), ({'lags': 1, 'min_lags': 9}, (1, 1)), ({'lags': 6, 'leads': 7}, (6, 7))):
            kwn = {k: ty(v) for k, v in kw.items()}
            try:
                text = fsic.build_model_definition(symbols(), with_type_hints=hints, **kwn)
                got = (int(re.search(r'^\s*LAGS(?:: int)? = (.+)$', text, re.M).group(1)), int(re.search(r'^\s*LEADS(?:: int)? = (.+)$', text, re.M).group(1)))
                M = fsic.build_model(symbols(), with_type_hints=hints, **kwn)
                got2 = (int(M.LAGS), int(M.LEADS))
            except Exception as e:  # noqa: BLE001
                got = got2 = f'{type(e).__name__}: {e}'
            if got != want or got2 != want:
                out['bad'].append({'what': f'options {kw} given as {ty.__name__}: LAGS/LEADS {got} / {got2}, expected {want}', 'replayed': True,
                                   'values': {'options': {k: f'{ty.__name__}({v})' for k, v in kw.items()}}})
    return out


# -- 3. default range ------------------------------------------------------------------------------------
def range_case(item) -> Dict[str, Any]:
    L, origin, twin = item
    ctx = Ctx(budget_s=120)
    lg, ld = z3.Int('lags'), z3.Int('leads')
    ctx.assume(z3.And(lg >= 0, lg <= L + 1, ld >= 0, ld <= L + 1), f'0 <= lags, leads <= L+1 (L={L}; the range call concretises them)')
    bad: List[Any] = []

    class M(fsic.BaseModel):
        ENDOGENOUS = ['Y']
        NAMES = ['Y']

    def expected(lags, leads):
        if L == 0:
            return ('exc', 'SolutionError')
        if lags > L - 1 or leads > L - 1:
            return ('exc', 'IndexError')
        lo, hi = lags, L - 1 - leads
        if twin:
            hi += 1
        return ('ret', [(t, origin + t) for t in range(lo, hi + 1)])

    def fn():
        m = M(range(origin, origin + L))
        m.__dict__['lags'] = SInt(lg)
        m.__dict__['leads'] = SInt(ld)
        r = _run(lambda: list(m.iter_periods()))
        # concretise to compare with the specification
        lags = cur().concretize(lg)
        leads = cur().concretize(ld)
        want = expected(lags, leads)
        if r[0] == 'ret':
            r = ('ret', [(int(a), int(b)) for a, b in r[1]])
        if r != want:
            return [f'lags={lags} leads={leads}: iter_periods() gave {r}, feasible periods are {want}']
        return []

    paths = 0
    for path in ctx.explore(fn):
        paths += 1
        if path.outcome[0] == 'exc':
            raise RuntimeError(repr(path.outcome[1]))
        if path.outcome[1]:
            m_ = path.model()
            lags, leads = m_.eval(lg, model_completion=True).as_long(), m_.eval(ld, model_completion=True).as_long()
            mm = M(range(origin, origin + L))
            mm.__dict__['lags'], mm.__dict__['leads'] = lags, leads
            r = _run(lambda: [(int(a), int(b)) for a, b in mm.iter_periods()])
            bad.append({'what': path.outcome[1][0], 'values': {'lags': lags, 'leads': leads, 'L': L},
                        'replayed': r != expected(lags, leads)})
    return {'kind': 'range', 'item': str(item), 'paths': paths, 'stats': ctx.stats.as_dict(), 'bad': bad,
            'assumptions': ctx.assumptions, 'exhausted': ctx.exhausted}


# -- 4. concrete side assertion per program ------------------------------------------------------------
def program_case(item) -> Dict[str, Any]:
    prog, lay_name = item
    lay = next(l for l in LAYOUTS if l.name == lay_name)
    text = render(prog, lay)
    out = {'kind': 'program', 'item': show(prog), 'paths': 0, 'stats': {}, 'bad': [], 'assumptions': [], 'exhausted': True}
    try:
        ref = classify(prog)
    except RefError as e:
        pb = parse_and_build(text)
        if pb.get('error') != e.kind:
            out['bad'].append({'what': f'illegal program must raise {e.kind}, got {pb.get("error", "a model")}', 'replayed': True,
                               'values': {'text': text}})
        out['rejected_as_expected'] = pb.get('error') == e.kind
        return out
    pb = parse_and_build(text)
    if 'error' in pb:
        out['bad'].append({'what': f'legal program rejected: {pb["error"]}', 'replayed': True, 'values': {'text': text}})
        return out
    for b in static_compare(prog, ref, pb['Model'], pb['symbols']):
        out['bad'].append({'what': b, 'replayed': True, 'values': {'text': text}})
    return out


# -- 5. named-period string indexes mixed with integer offsets (concrete, text level) -------------------------------
NAMED_PERIOD_CASES = [
    # script, ENDOGENOUS, EXOGENOUS, LAGS, LEADS  (a string / backticked index addresses a fixed period: it is no lag or lead)
    ("Y = X[-2] + X['2001']", ['Y'], ['X'], 2, 0),
    ("Y = X['2001'] + X[-2]", ['Y'], ['X'], 2, 0),
    ("Y = X['2001'] + Z[1]", ['Y'], ['X', 'Z'], 0, 1),
    ("Y = X[`2001`] * X[-1]\nZ = X[3]", ['Y', 'Z'], ['X'], 1, 3),
    ("Y = X[-1]\nZ = X['2001'] + X[-3]", ['Y', 'Z'], ['X'], 3, 0),
    ('Y = X["a"] + {p}[-2] * <e>[2]', ['Y'], ['X'], 2, 2),
    ("Y = X['2001']", ['Y'], ['X'], 0, 0),
]


def named_case(item) -> Dict[str, Any]:
    text, endo, exo, lags, leads = item
    out = {'kind': 'named', 'item': text.replace('\n', ' ; '), 'paths': 0, 'stats': {}, 'bad': [], 'assumptions': [], 'exhausted': True}
    pb = parse_and_build(text)
    if 'error' in pb:
        out['bad'].append({'what': f'rejected: {pb["error"]}: {pb["msg"][:80]}', 'replayed': True, 'values': {'text': text}})
        return out
    M = pb['Model']
    got = (list(M.ENDOGENOUS), list(M.EXOGENOUS), M.LAGS, M.LEADS)
    if got != (endo, exo, lags, leads):
        out['bad'].append({'what': f'(ENDOGENOUS, EXOGENOUS, LAGS, LEADS) = {got}, expected {(endo, exo, lags, leads)}', 'replayed': True,
                           'values': {'text': text}})
    return out


# -- second engine: CrossHair on the merge step (thorough tier) ---------------------------------------------------------
XH_POSTS = {
    'merge_variable_mentions': lambda a, r: r == (min(a[0], a[2]), max(a[1], a[3]), max(a[4], a[5])),
    'merge_is_commutative': lambda a, r: r is True,
    'merge_same_kind': lambda a, r: r == (min(a[0], a[2]), max(a[1], a[3]), a[4]),
}


def crosshair_case() -> Dict[str, Any]:
    """`crosshair check` over xh/combine_contract.py (contracts on the real Symbol.combine).  A counterexample is replayed by
    calling the contract function on the reported arguments; 'Not confirmed' / 'Unable to meet precondition' are
    inconclusive."""
    import ast
    import importlib
    import os
    import subprocess
    out: Dict[str, Any] = {'confirmed': 0, 'bad': [], 'inconclusive': [], 'lines': []}
    here = os.path.dirname(os.path.dirname(os.path.abspath(__file__)))
    p = subprocess.run([sys.executable, '-m', 'crosshair', 'check', '--report_all', '--per_condition_timeout', '60', 'xh/combine_contract.py'],
                       cwd=here, capture_output=True, text=True, timeout=1500, env=dict(os.environ))
    mod = importlib.import_module('xh.combine_contract')
    for ln in (p.stdout + p.stderr).splitlines():
        if 'combine_contract.py' not in ln:
            continue
        out['lines'].append(ln.split('combine_contract.py:')[-1][:200])
        if 'Confirmed over all paths' in ln:
            out['confirmed'] += 1
            continue
        m = re.search(r'when calling (\w+)\((.*?)\) \(which', ln)
        if m and m.group(1) in XH_POSTS:
            args = ast.literal_eval('(' + m.group(2) + ',)')
            try:
                got = getattr(mod, m.group(1))(*args)
                ok = XH_POSTS[m.group(1)](args, got)
            except Exception as e:  # noqa: BLE001
                got, ok = f'{type(e).__name__}: {e}', False
            out['bad'].append({'what': f'CrossHair: {m.group(1)}{args} returns {got!r}, which breaks its contract', 'replayed': not ok,
                               'values': {'function': m.group(1), 'args': list(args), 'returns': repr(got)}})
        else:
            out['inconclusive'].append(ln.split('combine_contract.py:')[-1][:200])
    if not out['lines']:
        out['inconclusive'].append('crosshair produced no verdict: ' + (p.stderr or p.stdout)[-300:])
    return out


def dispatch(item):
    kind, payload = item
    return {'merge': merge_case, 'lagsleads': lagslead_case, 'range': range_case, 'program': program_case,
            'named': named_case, 'rebuild': rebuild_case, 'npint': npint_case}[kind](payload)


def main() -> int:
    tier = vlib.tier()
    rep = vlib.Report('C03', 'translation_validation', tier)
    items: List[Any] = []
    types = list(T)
    for ta, tb in itertools.product(types, types):
        for mode in ('mention', 'acc'):
            items.append(('merge', (ta, tb, mode, (None, None), None)))
        if ta == tb:
            items.append(('merge', (ta, tb, 'first', (None, None), None)))
    for eqs in (('E1', None), (None, 'E1'), ('E1', 'E1'), ('E1', 'E2')):
        for ta, tb in ((T.ENDOGENOUS, T.ENDOGENOUS), (T.ENDOGENOUS, T.EXOGENOUS), (T.EXOGENOUS, T.ENDOGENOUS)):
            items.append(('merge', (ta, tb, 'mention', eqs, None)))
            items.append(('merge', (ta, tb, 'acc', eqs, None)))
    for n_sym in (0, 1, 2, 3) if tier == 'quick' else (0, 1, 2, 3, 4, 5, 6):
        for lm in ('none', 'given', 'min'):
            for dm in ('none', 'given', 'min'):
                for hints in (True, False):
                    items.append(('lagsleads', (n_sym, lm, dm, hints, None)))
    for mode in ('min_lags', 'min_leads', 'lags', 'leads'):
        for hints in (True, False):
            items.append(('rebuild', (mode, hints)))
    items += [('npint', True), ('npint', False)]
    for L in range(0, 5 if tier == 'quick' else 12):
        for origin in (0, 1990):
            items.append(('range', (L, origin, None)))
    ps = program_set(tier, vlib.seed())
    n_prog = 0
    for k in ('fixed', 'exhaustive', 'conditional', 'sampled', 'illegal'):
        for p in ps[k]:
            items.append(('program', (p, 'plain')))
            n_prog += 1
    for p in ps['fixed'] + ps['illegal']:
        items.append(('program', (p, 'wide')))
        n_prog += 1
    items += [('named', c) for c in NAMED_PERIOD_CASES]
    results = run_items(dispatch, items)
    gd = vlib.guarded(dispatch)
    twins = [gd(('merge', (T.EXOGENOUS, T.EXOGENOUS, 'mention', (None, None), 'lags_off'))),
             gd(('lagsleads', (2, 'min', 'none', True, 'lags_off'))),
             gd(('range', (3, 0, 'end_off')))]

    tot: Dict[str, Any] = {}
    by_kind: Dict[str, int] = {}
    samples = []
    assumptions = set()
    solver_obligations = 0
    disagreements = 0
    for r in results:
        if 'harness_error' in r:
            rep.error(f"{r['harness_error']} ({r.get('item')})")
            continue
        by_kind[r['kind']] = by_kind.get(r['kind'], 0) + 1
        add_stats(tot, r['stats'])
        assumptions.update(r['assumptions'])
        if r['kind'] not in ('program', 'named', 'npint'):
            solver_obligations += 1
            if not r['exhausted'] or r['paths'] == 0:
                rep.error(f"obligation not exhaustively explored / vacuous: {r['item']}")
            if len(samples) < 6 and r['paths'] > 1:
                samples.append({'obligation': r['kind'], 'case': r['item'], 'paths': r['paths'], 'queries': r['stats'].get('queries')})
        for b in r['bad']:
            disagreements += 1
            if b['replayed']:
                rep.violation(f"{r['kind']}:{r['item'][:80]}:{b['what'][:60]}", f"{r['item']}: {b['what']}", {'case': r['item'], 'values': b.get('values')})
            else:
                rep.error(f"counterexample did not reproduce: {r['item']}: {b['what']} {b.get('values')}")
    xh = None
    if tier == 'thorough' or os.environ.get('C03_CROSSHAIR'):
        xh = crosshair_case()
        for b in xh['bad']:
            if b['replayed']:
                rep.violation('crosshair:' + b['what'][:80], b['what'], {'case': 'crosshair', 'values': b['values']})
            else:
                rep.error(f"CrossHair counterexample did not reproduce: {b['what']}")
        for ln in xh['inconclusive']:
            rep.error(f'CrossHair inconclusive: {ln}')
    twin_rep = []
    for t in twins:
        hit = 'harness_error' not in t and any(b['replayed'] for b in t['bad'])
        twin_rep.append({'obligation': t.get('kind'), 'detected_and_replayed': hit})
        if not hit:
            rep.error(f'reachability twin not detected: {t}')
    rep.assumptions = sorted(assumptions)
    if xh is not None:
        rep.coverage['second_engine'] = {'tool': 'crosshair-tool 0.0.110 (crosshair check --report_all --per_condition_timeout 60)',
                                         'contracts': 'xh/combine_contract.py: 3 functions, 7 postconditions over unbounded integers on the real Symbol.combine',
                                         'confirmed_over_all_paths': xh['confirmed'], 'verdicts': xh['lines']}
    rep.coverage.update({
        'programs': n_prog,
        'disagreements_checked': disagreements,
        'samples': samples + [{'program_level_assertion': show(ps['fixed'][0])}],
        'evaluations': tot.get('paths', 0) + n_prog,
        'distinct_nontrivial': solver_obligations + n_prog,
        'rule': 'solver obligations: (type pair x merge mode x equation pair) for Symbol.combine, (symbols x lags/leads argument modes) '
                'for build_model_definition, (span length x origin) for iter_periods, each explored on all paths over unbounded '
                'integers; program_level_assertions: one per enumerated program (concrete, no solver)',
        'solver_obligations': {k: v for k, v in by_kind.items() if k != 'program'},
        'program_level_assertions': by_kind.get('program', 0),
        'functions_encoded': ['fsic.parser.Symbol.combine', 'fsic.parser.build_model_definition (LAGS/LEADS arithmetic)',
                              'fsic.core.interfaces.SolverMixin.iter_periods'],
        'bounds': {'combine': 'lags, leads, offset: all integers (inductive step => any number of mentions); 9x9 type pairs',
                   'build_model_definition': f"0..{3 if tier == 'quick' else 6} symbols, all integers for lags/leads/min_*",
                   'iter_periods': f"span length 0..{4 if tier == 'quick' else 11}, lags/leads in 0..L+1"},
        'stubs': {'fsic.parser.type': 'shadowed so that a symbolic integer reports type int (module global, no source edit)',
                  'SInt.__format__': 'renders an opaque token mapped back to its z3 term'},
        'queries': {k: tot.get(k, 0) for k in ('sat', 'unsat', 'unknown')},
        'solver_s': round(tot.get('solver_s', 0.0), 2),
        'paths': tot.get('paths', 0),
        'reachability_twin': twin_rep,
        'exhaustive': False,
        'outside_claim': ['the program dimension (enumerated; classification of names is a concrete assertion, the tokeniser is regex code)',
                          'named-period string indexes beyond the seven fixed scripts (concrete assertions)', 'CrossHair second opinion on Symbol.combine (thorough tier only)'],
    })
    return rep.finish()


if __name__ == '__main__':
    sys.exit(main())
