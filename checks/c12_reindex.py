"""C12 -- reindex preserves overlapping periods and fills the rest, on a fresh
object.

Real code: VectorContainer.reindex, BaseModel.reindex, VectorContainer.copy.
Symbolic: the labels of the old and of the new span (z3 integers; every
equality pattern between the two spans -- overlapping, disjoint, permuted,
shrunk, extended, repeated -- is a path).  Series are REAL typed arrays
(float, int, bool, str, status, iterations) with distinct marker values,
because the dtype-specific fill defaults live in NumPy.
"""
from __future__ import annotations

import sys
import time
import warnings
from typing import Any, Dict, List, Optional

import numpy as np
import z3

import fsic
import vlib
from checks.loopdriver import run_family
from fsic.core.containers import VectorContainer
from symx.core import Ctx, cur
from symx.src import ConSrc, SymSrc
from symx.values import SInt, SLabel

MARK = {
    'F': lambda j: 10.5 + j, 'I': lambda j: 100 + j, 'B': lambda j: j % 2 == 0, 'S': lambda j: f's{j}',
    'Y': lambda j: 20.25 + j, 'X': lambda j: 30.75 + j,
}
DTYPE = {'F': float, 'I': int, 'B': bool, 'S': '<U4'}


def cfg12(**kw):
    c = dict(kind='container', n_old=2, n_new=2, fill_value=None, fills={}, strict=None, obj_strict=False, solved=False,
             span='list', twin=None)
    c.update(kw)
    return c


def _model_class():
    if not hasattr(_model_class, 'M'):
        _model_class.M = fsic.build_model(fsic.parse_model('Y = X[-1] + 1'))
    return _model_class.M


def _build(cfg, old):
    if cfg['kind'] == 'container':
        c = VectorContainer(old, strict=cfg['obj_strict'])
        for v in ('F', 'I', 'B', 'S'):
            c.add_variable(v, [MARK[v](j) for j in range(len(old))], dtype=DTYPE[v])
        names = ['F', 'I', 'B', 'S']
        if cfg.get('odd_names'):
            # legal variable names that ordinary attribute lookup resolves to something else: a method, a property, the
            # storage slot of another variable
            for v, src_v in (('size', 'F'), ('copy', 'I'), ('values', 'B'), ('_F', 'S'), ('eval', 'F')):
                c.add_variable(v, [MARK[src_v](j + 3) for j in range(len(old))], dtype=DTYPE[src_v])
                names.append(v)
        if not cfg['obj_strict']:
            c.note = 'attribute'
            c.weights = np.array([0.25, 0.75])      # an attribute that happens to be an array is an attribute all the same
        return c, names
    M = _model_class()
    m = M(old, strict=cfg['obj_strict'])
    for v in ('Y', 'X'):
        m[v] = [MARK[v](j) for j in range(len(old))]
    if cfg['solved'] and len(old) >= 2:
        for j in range(1, len(old)):
            m.status[j] = '.'
            m.iterations[j] = j + 1
    m.lags, m.leads = 3, 2
    return m, ['status', 'iterations', 'Y', 'X']


def _default_fill(cfg, name, dtype):
    if cfg['kind'] == 'model' and name == 'status':
        return '-'
    if cfg['kind'] == 'model' and name == 'iterations':
        return -1
    return None


def _expected_fill(cfg, name, dtype):
    v = cfg['fills'].get(name, _default_fill(cfg, name, dtype) if name in ('status', 'iterations') and name not in cfg['fills'] else cfg['fill_value'])
    if name in ('status', 'iterations') and name not in cfg['fills'] and cfg['kind'] == 'model':
        v = _default_fill(cfg, name, dtype)
    if np.issubdtype(dtype, np.bool_):
        v = False if v is None else bool(v)
    elif np.issubdtype(dtype, np.integer):
        v = 0 if v is None else int(v)
    elif np.issubdtype(dtype, np.str_):
        v = '' if v is None else str(v)
    return np.full(1, v, dtype=dtype)[0]


def _eq(a, b) -> bool:
    if isinstance(a, (float, np.floating)) and isinstance(b, (float, np.floating)) and np.isnan(a) and np.isnan(b):
        return True
    if isinstance(a, (float, np.floating)) and isinstance(b, (float, np.floating)) and a == 0 and b == 0:
        return bool(np.signbit(a) == np.signbit(b))
    return bool(a == b) and (isinstance(a, (str, np.str_)) == isinstance(b, (str, np.str_)))


def scenario(cfg, src) -> List[str]:
    n_old, n_new = cfg['n_old'], cfg['n_new']
    if cfg['span'] == 'list':
        old = [src.lab(f'old_{j}') for j in range(n_old)]
        new = [src.lab(f'new_{j}') for j in range(n_new)]
    else:  # concrete string labels: the solver has no dimension here, equality patterns are enumerated by the caller
        old, new = list(cfg['old_labels']), list(cfg['new_labels'])
    new_span: Any = list(new)
    if cfg['span'] == 'nd':        # the new span handed over as a NumPy array (the result's span must BE that kind of span)
        new_span = np.array(new)
    elif cfg['span'] == 'range':
        new_span = range(new[0], new[-1] + 1) if new else range(0)
    if cfg.get('prior') is not None:
        # HISTORY: an earlier reindex (of another object) with fill values that compare EQUAL to this call's but are of
        # another type (1 / True / 1.0, 0.0 / -0.0): nothing of it may leak into this call
        o2, _ = _build(cfg, list(old))
        with warnings.catch_warnings():
            warnings.simplefilter('ignore')
            o2.reindex(list(new), **cfg['prior'])
    obj, names = _build(cfg, list(old))
    before = {v: obj[v].copy() for v in names}
    kw: Dict[str, Any] = dict(cfg['fills'])
    if cfg['fill_value'] is not None:
        kw['fill_value'] = cfg['fill_value']
    if cfg['strict'] is not None:
        kw['strict'] = cfg['strict']
    bad: List[str] = []
    try:
        with warnings.catch_warnings():
            warnings.simplefilter('ignore')
            res = obj.reindex(new_span, **kw)
        out = ('ret', res)
    except Exception as e:  # noqa: BLE001
        out = ('exc', type(e).__name__)
    strict_eff = cfg['strict'] if cfg['strict'] is not None else cfg['obj_strict']
    unknown = [k for k in cfg['fills'] if k not in names]
    if unknown and strict_eff:
        if out != ('exc', 'KeyError'):
            bad.append(f'unknown fill variable {unknown} under strict must raise KeyError, got {out[:2] if out[0] == "exc" else "a result"}')
        for v in names:
            if not all(_eq(a, b) for a, b in zip(obj[v], before[v])):
                bad.append(f'original changed by a rejected reindex: {v}')
        return bad
    if out[0] != 'ret':
        bad.append(f'reindex raised {out[1]}')
        return bad
    res = out[1]
    if type(res) is not type(obj):
        bad.append(f'result class {type(res).__name__} != {type(obj).__name__}')
    if list(res.index) != list(obj.index):
        bad.append(f'variable order {res.index} != {obj.index}')
    rs = list(res.span)
    if len(rs) != n_new or any(a is not b and not bool(a == b) for a, b in zip(rs, new)):
        bad.append('span of the result is not the new span')
    if cfg['span'] in ('nd', 'range') and type(res.span) is not type(new_span):
        bad.append(f'span of the result is a {type(res.span).__name__}, the new span given is a {type(new_span).__name__}')
    if cfg['kind'] == 'model':
        if (res.lags, res.leads) != (3, 2) or res.names != obj.names or res.strict != obj.strict:
            bad.append(f'lag/lead settings or names not carried over: {(res.lags, res.leads)}')
    elif not cfg['obj_strict'] and getattr(res, 'note', None) != 'attribute':
        bad.append('attribute not carried over')
    elif not cfg['obj_strict'] and not (isinstance(getattr(res, 'weights', None), np.ndarray) and np.array_equal(res.weights, [0.25, 0.75])
                                      and res.weights is not obj.weights):
        bad.append('array-valued attribute not carried over (as a copy)')
    if res.strict != obj.strict:
        bad.append(f'strict setting of the result {res.strict} != {obj.strict} of the original')
    twin = cfg.get('twin')
    for v in names:
        arr, old_arr = res[v], before[v]
        if arr.dtype != old_arr.dtype:
            bad.append(f'dtype of {v}: {arr.dtype} != {old_arr.dtype}')
        if arr.shape != (n_new,):
            bad.append(f'shape of {v}: {arr.shape}')
            continue
        fill = _expected_fill(cfg, v, old_arr.dtype)
        for i in range(n_new):
            matches = [j for j in range(n_old) if bool(old[j] == new[i])]
            if twin == 'shifted' and matches:
                matches = [(matches[0] + 1) % n_old]
            if matches:
                if not any(_eq(arr[i], old_arr[j]) for j in matches):
                    bad.append(f'{v}: new position {i} matches old position(s) {matches} but holds {arr[i]!r}, not {[old_arr[j] for j in matches]}')
            elif not _eq(arr[i], fill):
                bad.append(f'{v}: new position {i} is a new period but holds {arr[i]!r}, expected fill {fill!r}')
    for v in names:
        if not all(_eq(a, b) for a, b in zip(obj[v], before[v])) or len(obj[v]) != n_old:
            bad.append(f'original changed: {v}')
    if len(obj.span) != n_old:
        bad.append('original span changed')
    # independence probe (the full question is C11's): mutate the result, look at the original
    if n_new and n_old:
        v = names[-1]
        res[v][0] = res[v][0]  # same value write (no-op) then a real change
        try:
            res[v][:] = res[v][::-1].copy()
        except Exception:  # noqa: BLE001
            pass
        if not all(_eq(a, b) for a, b in zip(obj[v], before[v])):
            bad.append('mutating the result changed the original')
    return bad


def explore12(cfg: dict) -> dict:
    t_start = time.time()
    ctx = Ctx(budget_s=300)
    holder: Dict[str, Any] = {}

    def fn():
        src = SymSrc()
        holder['src'] = src
        return scenario(cfg, src)

    res: Dict[str, Any] = {'cfg': {k: (str(v) if k == 'fills' else v) for k, v in cfg.items()}, 'paths': 0, 'mismatch_paths': 0,
                           'candidates': [], 'outcomes': {}, 'witness_checked': 0, 'witness_bad': [], 'spurious_under_uf': 0,
                           'nontrivial_paths': 0}
    for path in ctx.explore(fn):
        res['paths'] += 1
        if path.outcome[0] == 'exc':
            raise RuntimeError(f'harness raised on a path: {path.outcome[1]!r}')
        bad = path.outcome[1]
        res['nontrivial_paths'] += 1
        key = 'ok' if not bad else 'mismatch'
        res['outcomes'][key] = res['outcomes'].get(key, 0) + 1
        if bad:
            res['mismatch_paths'] += 1
            if len(res['candidates']) >= 3:
                continue
            m = path.model()
            inp = {'f': {}, 'i': {n: m.eval(z3.Int(n), model_completion=True).as_long() for n in holder['src'].ints}}
            cb = scenario(cfg, ConSrc(inp))
            res['candidates'].append({'symbolic': bad, 'inputs': inp, 'replay': {'bad': cb, 'impl': None, 'ref': None}})
    res['exhausted'] = ctx.exhausted
    res['smt_samples'] = list(ctx.samples)
    res['stats'] = ctx.stats.as_dict()
    res['assumptions'] = list(ctx.assumptions)
    res['shim_calls'] = {}
    res['wall_s'] = round(time.time() - t_start, 3)
    return res


def configs(tier: str):
    out = []
    N = 3 if tier == 'quick' else 4
    fill_sets = [
        dict(fill_value=None, fills={}),
        dict(fill_value=7, fills={}),
        dict(fill_value=2.5, fills={'I': 9, 'S': 'zz'}),
        dict(fill_value=None, fills={'F': -1.0, 'B': True}),
        dict(fill_value=0.5, fills={'B': 1e-9}),   # truthy fills whose int() is 0 (seeded change C12_r2mut2)
    ]
    for n_old in range(0, N + 1):
        for n_new in range(0, N + 1):
            if tier == 'quick' and n_old + n_new > 5:
                continue
            for fs in fill_sets:
                if n_old + n_new >= 7 and fs is not fill_sets[0]:
                    continue
                out.append(cfg12(kind='container', n_old=n_old, n_new=n_new, **fs))
            for solved in (False, True):
                out.append(cfg12(kind='model', n_old=n_old, n_new=n_new, solved=solved))
            out.append(cfg12(kind='model', n_old=n_old, n_new=n_new, fills={'status': 'F', 'iterations': 0, 'Y': 5.0}, fill_value=1))
    for prior, now in ((dict(fill_value=1), dict(fill_value=True)), (dict(fill_value=True), dict(fill_value=1)),
                       (dict(fill_value=1), dict(fill_value=1.0)), (dict(fill_value=0.0), dict(fill_value=-0.0)),
                       (dict(fill_value=0), dict(fill_value=False)), (dict(S=1, F=0.0), dict(fills={'S': True, 'F': -0.0})),
                       (dict(fill_value=2), dict(fill_value=2.0))):
        for n_old, n_new in ((1, 2), (0, 2), (2, 3)):
            out.append(cfg12(kind='container', n_old=n_old, n_new=n_new, prior=prior, **now))
    out.append(cfg12(kind='model', n_old=1, n_new=2, prior=dict(status=0, Y=0.0), fills={'status': False, 'Y': -0.0}))
    for kind in ('container', 'model'):
        for strict, obj_strict in ((True, False), (False, True), (None, True), (None, False), (False, False)):
            out.append(cfg12(kind=kind, n_old=2, n_new=2, fills={'Q': 1}, strict=strict, obj_strict=obj_strict))
            out.append(cfg12(kind=kind, n_old=1, n_new=2, fills={}, strict=strict, obj_strict=obj_strict))
            for odd in ('values', 'copy', 'eval', 'names'):      # not variables, although the object has attributes of that name
                out.append(cfg12(kind=kind, n_old=1, n_new=2, fills={odd: 1}, strict=strict, obj_strict=obj_strict))
        for fv in (7, 0, 2.5):     # a model's status / iterations keep their own defaults whatever fill_value says
            out.append(cfg12(kind='model', n_old=1, n_new=3, fill_value=fv))
            out.append(cfg12(kind='model', n_old=2, n_new=3, fill_value=fv, fills={'Y': 1.0}, solved=True))
    # string labels (concrete patterns)
    pats = [(['a', 'b', 'c'], ['b', 'c', 'd']), (['a', 'b'], ['x', 'y']), (['a', 'b', 'c'], ['c', 'b', 'a']), (['a', 'b', 'c'], ['b']),
            (['b'], ['a', 'b', 'c']), (['a', 'a', 'b'], ['a', 'b', 'b'])]
    for o, n in pats:
        for kind in ('container', 'model'):
            out.append(cfg12(kind=kind, span='str', old_labels=o, new_labels=n, n_old=len(o), n_new=len(n)))
    # new span given as a NumPy array / a range (the result keeps that kind of span); odd but legal variable names
    ipats = [([2000, 2001, 2002], [2001, 2002, 2003]), ([2000, 2001], [2005, 2006]), ([2001], [2000, 2001, 2002]), ([], [2000, 2001]), ([2000, 2001, 2002], [2001])]
    for o, n in ipats:
        for kind in ('container', 'model'):
            for sp in ('nd', 'range'):
                out.append(cfg12(kind=kind, span=sp, old_labels=o, new_labels=n, n_old=len(o), n_new=len(n)))
        out.append(cfg12(kind='container', span='str', old_labels=o, new_labels=n, n_old=len(o), n_new=len(n), odd_names=True))
        out.append(cfg12(kind='container', span='str', old_labels=o, new_labels=n, n_old=len(o), n_new=len(n), odd_names=True, fill_value=7))
    return out


TWINS = [cfg12(kind='container', n_old=2, n_new=2, twin='shifted'), cfg12(kind='model', n_old=2, n_new=1, twin='shifted')]


def finding_key(cfg, cand) -> str:
    bad = cand['replay']['bad']
    return f"{cfg['kind']},old={cfg['n_old']},new={cfg['n_new']},fill={cfg['fill_value']},fills={cfg['fills']}{',prior=' + str(cfg['prior']) if cfg.get('prior') else ''}:{bad[0][:80] if bad else '?'}"


def main() -> int:
    tier = vlib.tier()
    rep = vlib.Report('C12', 'model_checking', tier)
    run_family(
        rep, configs(tier), TWINS,
        functions=['fsic.core.containers.VectorContainer.reindex', 'VectorContainer.copy', 'fsic.core.models.BaseModel.reindex',
                   'VectorContainer._locate_period_in_span'],
        bounds={'old_span_length': f"0..{3 if tier == 'quick' else 4}", 'new_span_length': f"0..{3 if tier == 'quick' else 4}" ,
                'labels': 'unconstrained integers: every equality pattern within and between the spans',
                'dtypes': ['float', 'int', 'bool', 'str', 'status <U1', 'iterations int'], 'fills': 'default / fill_value / per-variable / unknown names x strict'},
        outside=['PandasIndexFeaturesMixin.reindex (pandas)', 'pandas span types', 'full independence of the result (C11, not applicable); a single mutation probe is run',
                 'BaseLinker.reindex (raises NotImplementedError by design)'],
        key_fn=finding_key, explore=explore12,
    )
    rep.coverage['symbolic_inputs'] = ['labels of the old span', 'labels of the new span']
    rep.coverage['stubs'] = {'series': 'real typed NumPy arrays with marker values (no stand-in); arithmetic not involved'}
    return rep.finish()


if __name__ == '__main__':
    sys.exit(main())
