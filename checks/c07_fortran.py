"""C07 -- the Fortran back-end computes what the Python back-end computes.

Decided by the solver: the generated `evaluate` subroutine.  Per program of
the common subset: build_fortran_definition(symbols) is compiled with gfortran
(regenerated on every run); the compiler's own front-end IR of `evaluate`
(-fdump-tree-original) is executed symbolically (fir) over the same z3 arrays
and the same canonical uninterpreted arithmetic as the Python engine's
generated `_evaluate`; with row r <-> Model.NAMES[r-1] and index = t+1 the
final series must be z3-equal for ALL cells, t, L.  Constants stay interpreted,
so a single-precision literal, a truncated integer quotient, a mis-rewritten
index, a wrong row number or a token split by line wrapping give sat.  The
index guards of the IR are compared with the feasibility rule for all t, ncols.
sat -> concrete data -> replay on the real machine code (gfortran -shared,
ctypes) against the Python class at rtol 1e-12.

Not decided by the solver: the compiled solve_t / solve routines and the
FortranEngine error-code mapping (several hundred lines of descriptor
arithmetic per routine; f2py is not installed here, so the wrapper cannot even
be instantiated).  They are outside the claim.
"""
from __future__ import annotations

import os
import random
import re
import sys
import time
import warnings
from typing import Any, Dict, List, Optional

import numpy as np
import z3

import fir
import fsic
import fsic.fortran as ffortran
import fsic.parser as fparser
import vlib
from gram import Bin, Call, Eq, Layout, Neg, Num, RefError, Var, classify, render, walk
from gram.driver import add_stats, run_items
from gram.family import show
from gram import enum as genum
from symx import values as sv
from symx.core import Ctx, Inconclusive, cur
from symx.values import F64, SBool, SFloat, SInt, _sf, fpval, model_float, model_int, to_ieee
from symx.zseries import ZSeries

UF_MAX = z3.Function('uf_max', F64, F64, F64)
UF_MIN = z3.Function('uf_min', F64, F64, F64)


def _sym2(f, a, b):
    a, b = _sf(a).t, _sf(b).t
    if a.get_id() > b.get_id():
        a, b = b, a
    return SFloat(f(a, b))


def _concrete(x):
    return isinstance(x, (int, float, np.floating, np.integer)) and not isinstance(x, bool)


def _pmax(*args):
    if all(_concrete(x) for x in args):
        return max(args)   # constant folding, as the compiler does
    out = args[0]
    for x in args[1:]:
        out = _sym2(UF_MAX, out, x)
    return out


def _pmin(*args):
    if all(_concrete(x) for x in args):
        return min(args)
    out = args[0]
    for x in args[1:]:
        out = _sym2(UF_MIN, out, x)
    return out


class SymEnv(fir.Env):
    def __init__(self, consts, series: Dict[int, ZSeries], index_py) -> None:
        super().__init__(consts)
        self.series = series        # row -> ZSeries
        self.index_py = index_py    # python position term of Fortran `index` (index - 1) is computed from vars['index']
        self.reads: list = []

    def real(self, text: str):
        return SFloat(fpval(float(text)))

    def _pos(self, k: int):
        idx = self.vars['index']
        return idx - 1 + k if k else idx - 1

    def read(self, arr, k, row):
        if arr != 'S':
            raise fir.FirError('read of initial_values inside the equations')
        return self.series[row][self._pos(k)]

    def write(self, k, row, value):
        self.series[row][self._pos(k)] = value

    def to_real(self, v):
        return _sf(v)

    def neg(self, a):
        return -a

    def arith(self, op, a, b):
        if op in ('<', '<=', '>', '>=', '==', '!='):
            return {'<': lambda: a < b, '<=': lambda: a <= b, '>': lambda: a > b, '>=': lambda: a >= b,
                    '==': lambda: a == b, '!=': lambda: a != b}[op]()
        ints = all(isinstance(x, (int, SInt)) for x in (a, b))
        if op == '+':
            return a + b
        if op == '-':
            return a - b
        if op == '*':
            return a * b
        if op == '/':
            if ints:
                if isinstance(a, int) and isinstance(b, int):
                    return int(a / b)  # Fortran integer division truncates
                raise fir.FirError('symbolic integer division')
            return _sf(a) / _sf(b)
        raise fir.FirError(op)

    def call(self, name, args):
        if name == 'MAX_EXPR':
            return _pmax(*args)
        if name == 'MIN_EXPR':
            return _pmin(*args)
        if name == 'ABS_EXPR':
            return abs(_sf(args[0]))
        if name == 'NON_LVALUE_EXPR':
            return args[0]
        if name == '__builtin_exp':
            return _sf(args[0]).exp()
        if name == '__builtin_log':
            return _sf(args[0]).log()
        if name == '__builtin_sqrt':
            return _sf(args[0]).sqrt()
        if name == '__builtin_pow':
            return _sf(args[0]) ** _sf(args[1])
        if name == '__builtin_powi':
            n = args[1]
            if not isinstance(n, int):
                raise fir.FirError('powi with a symbolic exponent')
            return _sf(args[0]) ** float(n)
        raise fir.FirError(f'IR call {name} not modelled')


def _header_ints(source: str) -> Dict[str, int]:
    m = re.search(r'integer :: lags = (-?\d+), leads = (-?\d+)', source)
    if not m:
        raise fir.FirError('lags/leads not found in the Fortran source')
    return {'lags': int(m.group(1)), 'leads': int(m.group(2)), 'index_error_below': 11, 'index_error_above': 12,
            'index_error_lags': 13, 'index_error_leads': 14}


def _install_python_side():
    fparser.max = _pmax
    fparser.min = _pmin


def _uninstall_python_side():
    for n in ('max', 'min'):
        if n in fparser.__dict__:
            del fparser.__dict__[n]


def work(item) -> Dict[str, Any]:
    t0 = time.time()
    r = _work(item)
    r['wall_s'] = round(time.time() - t0, 2)
    return r


def _work(item) -> Dict[str, Any]:
    prog, twin = item[0], item[1]
    text = render(prog, Layout())
    out: Dict[str, Any] = {'prog': show(prog), 'layout': 'plain', 'bad': [], 'paths': 0, 'stats': {}, 'status': 'ok'}
    try:
        ref = classify(prog)
        symbols = fsic.parse_model(text)
        Model = fsic.build_model(symbols)
    except Exception as e:  # noqa: BLE001
        out['status'] = 'rejected'
        return out
    source = ffortran.build_fortran_definition(symbols, wrap_width=item[2] if len(item) > 2 else 100)
    cd = fir.compile_dump(source, want_so=False)
    if not cd['compiled']:
        out['status'] = 'does_not_compile'
        err = [l for l in cd['stderr'].splitlines() if l.startswith('Error')]
        out['bad'].append({'what': 'generated Fortran does not compile: ' + (err[0] if err else cd['stderr'][-200:]), 'replayed': True,
                           'class': 'compile:' + _compile_class(err[0] if err else ''), 'replay': {'text': text, 'gfortran': cd['stderr'][-600:]}})
        return out
    body = fir.evaluate_body(cd['dump'])
    stmts = fir.split_statements(body)
    consts = _header_ints(source)
    names = list(Model.NAMES)
    lags, leads = ref['lags'], ref['leads']
    if (consts['lags'], consts['leads']) != (Model.LAGS, Model.LEADS):
        out['bad'].append({'what': f"Fortran lags/leads {(consts['lags'], consts['leads'])} != Python LAGS/LEADS {(Model.LAGS, Model.LEADS)}", 'replayed': True,
                           'class': 'lags-leads', 'replay': {'text': text}})
    # the lags / leads / min_lags / min_leads option lattice must give the same lag and lead lengths on both back-ends
    # (concrete assertion; the feasibility guard of the IR is then decided symbolically against these constants below)
    for opts in ({'lags': 1, 'min_lags': 2}, {'leads': 0, 'min_leads': 3}, {'min_lags': 2, 'min_leads': 1}, {'lags': 3, 'leads': 2},
                 {'lags': 0}, {'leads': 0, 'min_lags': 4}):
        try:
            M2 = fsic.build_model(symbols, **opts)
            h2 = _header_ints(ffortran.build_fortran_definition(symbols, **opts))
        except Exception as e:  # noqa: BLE001
            out['bad'].append({'what': f'options {opts}: {type(e).__name__}: {e}', 'replayed': True, 'class': 'options', 'replay': {'text': text}})
            continue
        if (h2['lags'], h2['leads']) != (M2.LAGS, M2.LEADS):
            out['bad'].append({'what': f"options {opts}: Fortran lags/leads {(h2['lags'], h2['leads'])} != Python LAGS/LEADS {(M2.LAGS, M2.LEADS)}",
                               'replayed': True, 'class': 'lags-leads-options', 'replay': {'text': text, 'options': opts}})
            break
    sv.CANON[0] = True
    _install_python_side()
    try:
        for mode in ('equiv', 'guards'):
            ctx = Ctx(budget_s=120)
            tz, Lz = z3.Int('t'), z3.Int('L')
            ctx.assume(z3.And(Lz >= 0, Lz < 2 ** 30, tz > -(2 ** 30), tz < 2 ** 30), '0 <= L, |t| < 2^30 (Fortran default integers)')
            post = z3.If(tz < 0, tz + Lz, tz)
            feasible = z3.And(post >= Model.LAGS, post <= Lz - 1 - Model.LEADS, tz >= -Lz, tz < Lz)
            if mode == 'equiv':
                ctx.assume(feasible, 'period feasible for the model (LAGS <= position <= L-1-LEADS)')

            def fn():
                t = SInt(tz)
                c = cur()
                rec: Dict[str, Any] = {'bad': [], 'terms': []}
                flog: list = []
                fser = {r_: ZSeries(n, Lz, flog) for r_, n in enumerate(names, start=1)}
                env = SymEnv(dict(consts), fser, None)
                env.vars['*t'] = t + 1
                env.vars['*ncols'] = SInt(Lz)
                env.vars['*nrows'] = len(names)
                try:
                    fir.execute(stmts, env)
                except fir.Return:
                    pass
                except IndexError:
                    rec['bad'].append('Fortran evaluate indexes outside the arrays')
                    rec['terms'].append(z3.BoolVal(True))
                    return rec
                code = env.vars.get('*error_code')
                if mode == 'guards':
                    ok = (code == 0)
                    want_ok = c.branch(feasible)
                    if twin == 'guard_off':
                        want_ok = not want_ok
                    if ok != want_ok:
                        rec['bad'].append(f'error code {code} for a period that is {"feasible" if want_ok else "infeasible"}')
                        rec['terms'].append(z3.BoolVal(True))
                    elif not ok and code not in (11, 12, 13, 14):
                        rec['bad'].append(f'unexpected error code {code}')
                    return rec
                if code != 0:
                    rec['bad'].append(f'feasible period rejected with error code {code}')
                    rec['terms'].append(z3.BoolVal(True))
                    return rec
                plog: list = []
                pser = {n: ZSeries(n, Lz, plog) for n in names}
                m = Model(range(max(1, Model.LAGS + Model.LEADS + 1)))
                for n in names:
                    m.__dict__['_' + n] = pser[n]
                # the Python engine is run at the normalised position the Fortran code computed (index - 1), so that
                # both sides index with identical terms; Python's own treatment of a negative t is C01/C04's subject
                t_norm = SInt(z3.simplify(env.vars['index'].t - 1)) if isinstance(env.vars['index'], SInt) else env.vars['index'] - 1
                try:
                    with warnings.catch_warnings():
                        warnings.simplefilter('ignore')
                        m._evaluate(t_norm)
                except Exception as e:  # noqa: BLE001
                    rec['bad'].append(f'Python engine raised {type(e).__name__} where Fortran returned 0')
                    rec['terms'].append(z3.BoolVal(True))
                    return rec
                for r_, n in enumerate(names, start=1):
                    a, b = fser[r_].arr, pser[n].arr
                    if twin == 'row_swap' and r_ == 1 and len(names) > 1:
                        a = fser[2].arr
                    if not a.eq(b) and c._check(a != b) == 'sat':
                        rec['bad'].append(f'variable {n} (row {r_}): Fortran evaluate and Python _evaluate differ')
                        rec['terms'].append(a != b)
                return rec

            for path in ctx.explore(fn):
                out['paths'] += 1
                if path.outcome[0] == 'exc':
                    raise RuntimeError(f'harness raised: {path.outcome[1]!r}')
                rec = path.outcome[1]
                if rec['bad'] and len(out['bad']) < 3:
                    w = _witness(ctx, names, rec['terms'])
                    if w is None:
                        continue
                    rb = replay_native(text, w, twin)
                    out['bad'].append({'what': '; '.join(rec['bad'][:2]) + f' [{mode}]', 'replayed': bool(rb['bad']),
                                       'class': rb.get('class', 'other'), 'within_rounding': rb.get('within_rounding', False),
                                       'replay': {'text': text, 'witness': w, 'native': rb['bad']}})
            add_stats(out['stats'], ctx.stats.as_dict())
            out['assumptions'] = ctx.assumptions
            if not ctx.exhausted:
                return {'harness_error': f'not exhaustive: {show(prog)}', 'item': show(prog)}
    finally:
        sv.CANON[0] = False
        _uninstall_python_side()
    return out


def _compile_class(err: str) -> str:
    if "must be REAL" in err or 'must have the same type' in err or 'must be the same type' in err:
        return 'intrinsic-argument-kind'
    return 'other'


def _witness(ctx, names, terms) -> Optional[dict]:
    s = z3.Solver()
    s.set('timeout', 20000)
    for a in ctx.solver.assertions():
        s.add(a)
    if terms:
        s.add(z3.Or(*terms))
    s.add(z3.Int('L') <= 10)
    r = str(s.check())
    if r != 'sat':
        s = z3.Solver()
        s.set('timeout', 20000)
        for a in ctx.solver.assertions():
            s.add(a)
        if terms:
            s.add(z3.Or(*terms))
        r = str(s.check())
    if r == 'unsat':
        return None
    if r != 'sat':
        raise Inconclusive('witness query ' + r)
    m = s.model()
    L, t = model_int(m, z3.Int('L')), model_int(m, z3.Int('t'))
    if L > 2000:
        raise Inconclusive(f'witness span {L}')
    return {'t': t, 'L': L, 'series': {n: [model_float(m, z3.Select(z3.Array(f'{n}!0', z3.IntSort(), F64), z3.IntVal(j))) for j in range(L)] for n in names}}


def replay_native(text: str, w: dict, twin=None) -> Dict[str, Any]:
    """Real machine code (gfortran -shared + ctypes) vs the Python class on concrete finite data."""
    shadowed = 'max' in fparser.__dict__
    canon = sv.CANON[0]
    _uninstall_python_side()
    sv.CANON[0] = False
    try:
        return _replay_native(text, w, twin)
    finally:
        sv.CANON[0] = canon
        if shadowed:
            _install_python_side()


def _replay_native(text: str, w: dict, twin=None) -> Dict[str, Any]:
    symbols = fsic.parse_model(text)
    Model = fsic.build_model(symbols)
    source = ffortran.build_fortran_definition(symbols)
    cd = fir.compile_dump(source, want_so=True)
    names = list(Model.NAMES)
    L, t = w['L'], w['t']
    nat = fir.NativeEvaluate(cd['so_bytes'])
    rng = random.Random(vlib.seed())
    bad: List[str] = []
    cls = 'other'
    within = True
    try:
        for trial in range(5):
            data = {}
            for n in names:
                base = list(w['series'][n]) if trial == 0 else [0.0] * L
                data[n] = [x if (trial == 0 and x == x and abs(x) < 1e100 and x != 0.0) else rng.uniform(0.6, 2.9) for x in base]
            vals = np.array([data[n] for n in names], dtype=float)
            fout, code = nat.evaluate(vals, t + 1)
            m = Model(range(L))
            for n in names:
                m[n] = data[n]
            pcode = 0
            p = t if t >= 0 else t + L
            feas = 0 <= p < L and Model.LAGS <= p <= L - 1 - Model.LEADS
            if twin == 'guard_off':
                feas = not feas
            try:
                with np.errstate(all='ignore'):
                    if feas:
                        m._evaluate(t)
                    else:
                        pcode = 1
            except Exception as e:  # noqa: BLE001
                pcode = 1
            if (code != 0) != (pcode != 0):
                bad.append(f'trial {trial}: Fortran error code {code}, Python side {"rejects" if pcode else "evaluates"} (t={t}, L={L})')
                cls = 'guards'
                within = False
                break
            if code != 0:
                continue
            pv = np.array([m[n] for n in names], dtype=float)
            if twin == 'row_swap' and len(names) > 1:
                fout = fout.copy()
                fout[0] = fout[1]
            if not np.all(np.isfinite(pv)) or not np.all(np.isfinite(fout)):
                continue  # the statement is about finite data
            diff = np.abs(fout - pv)
            tol = 1e-12 * np.maximum(1.0, np.abs(pv))
            if np.any(diff > tol):
                i, j = np.unravel_index(np.argmax(diff - tol), diff.shape)
                bad.append(f'trial {trial}: {names[i]}[{j}] Fortran={fout[i, j]!r} Python={pv[i, j]!r} (t={t}, L={L}, rel.diff={diff[i, j] / max(1.0, abs(pv[i, j])):.3g})')
                within = False
                rel = diff[i, j] / max(1.0, abs(pv[i, j]))
                cls = 'literal-single-precision' if rel < 1e-6 else 'value'
                break
    finally:
        nat.close()
    return {'bad': bad, 'class': cls, 'within_rounding': within and not bad}


# programs of the common subset --------------------------------------------------------------------------------
F_ATOMS = [Var('X'), Var('X', off=-1), Var('Z', off=1), Var('Y', off=-1), Var('alpha_1', 'p'), Var('e', 'e'), Num('2'), Num('0.5'), Num('0.1'), Num('3'),
           Num('.7'), Num('1.'), Num('10.25')]   # every spelling of a literal Python accepts (seeded change C07_mut1: '.7')
F_CALLS1 = ['exp', 'log', 'abs']


def fortran_programs(tier: str, seed: int):
    rng = random.Random(seed + 7)
    progs = []
    atoms = F_ATOMS
    for a in atoms:
        progs.append((Eq(Var('Y'), a),))
        progs.append((Eq(Var('Y'), Neg(a)),))
        for f in F_CALLS1:
            if isinstance(a, Var) or f == 'abs':
                progs.append((Eq(Var('Y'), Call(f, (a,))),))
    for a in atoms:
        for b in atoms:
            for op in genum.BINOPS:
                progs.append((Eq(Var('Y'), Bin(op, a, b)),))
            for f in genum.CALLS2:
                progs.append((Eq(Var('Y'), Call(f, (a, b))),))
    fixed = [
        (Eq(Var('C'), Bin('+', Bin('*', Var('alpha_1', 'p'), Var('YD')), Bin('*', Var('alpha_2', 'p'), Var('H', off=-1)))),
         Eq(Var('YD'), Bin('-', Var('Y'), Var('T'))), Eq(Var('Y'), Bin('+', Var('C'), Var('G'))),
         Eq(Var('T'), Bin('*', Var('theta', 'p'), Var('Y'))), Eq(Var('H'), Bin('+', Var('H', off=-1), Bin('-', Var('YD'), Var('C'))))),
        (Eq(Var('A'), Bin('+', Var('B', off=1), Var('e', 'e'))), Eq(Var('B'), Bin('-', Var('A', off=-2), Var('X')))),
        (Eq(Var('Y'), Bin('+', Bin('*', Num('0.5'), Var('Y', off=-1)), Var('X'))),),
        (Eq(Var('Y'), Bin('**', Bin('-', Var('X'), Num('1.5')), Num('3'))),),
        (Eq(Var('Y'), Bin('/', Call('exp', (Neg(Var('X')),)), Bin('**', Bin('+', Num('2.0'), Var('e', 'e')), Num('1.5')))),),
    ]
    # long equations that need continuation lines, dozens of variables
    big_names = [f'v{i}' for i in range(1, 41)]
    long_expr: Any = Var(big_names[0])
    for i, n in enumerate(big_names[1:], start=1):
        long_expr = Bin('+' if i % 3 else '-', long_expr, Bin('*', Var(n, off=-(i % 3)), Var(f'p{i % 5}', 'p')))
    fixed.append((Eq(Var('TOTAL'), long_expr),))
    sampled = []
    n_s = 60 if tier == 'quick' else 3000
    pool = [a for a in atoms] + [Var('W'), Var('W', off=-2)]
    def gen(d):
        if d <= 0 or rng.random() < 0.3:
            return rng.choice(pool)
        k = rng.random()
        if k < 0.6:
            return Bin(rng.choice(genum.BINOPS), gen(d - 1), gen(d - 1))
        if k < 0.7:
            return Neg(gen(d - 1))
        if k < 0.88:
            return Call(rng.choice(F_CALLS1), (gen(d - 1),))
        return Call(rng.choice(genum.CALLS2), (gen(d - 1), gen(d - 1)))
    def const_val(e):
        """Python value of a constant-only sub-expression (None if it has variables or cannot be evaluated)."""
        if any(isinstance(x, Var) for x in walk(e)):
            return None
        try:
            from gram import Env, interp
            import math
            v = interp(e, Env({}, 0, {'exp': math.exp, 'log': math.log, 'abs': abs, 'max': max, 'min': min}))
            return v
        except Exception:  # noqa: BLE001
            return 'invalid'

    def negative_base_power(p):
        # a negative constant raised to a non-integer-literal power is complex / NaN in Python and prohibited in
        # Fortran: not "data for which values stay finite"
        for eq in p:
            for n in walk(eq.expr):
                if isinstance(n, Bin) and n.op == '**':
                    b = const_val(n.l)
                    if b == 'invalid' or isinstance(b, complex) or (b is not None and b < 0 and not (isinstance(n.r, Num) and '.' not in n.r.text)):
                        return True
                v = const_val(n) if isinstance(n, (Bin, Call, Neg)) else None
                if v == 'invalid' or isinstance(v, complex):
                    return True
        return False

    def const_only_call(p):
        # exp/log of a constant sub-expression is folded (or rejected, e.g. log(-0.5)) at compile time and is
        # non-finite in Python: outside "all data for which values stay finite"
        for eq in p:
            for n in walk(eq.expr):
                if isinstance(n, Call) and n.fn in F_CALLS1 and not any(isinstance(x, Var) for a in n.args for x in walk(a)):
                    return True
        return False

    while len(sampled) < n_s:
        p = tuple(Eq(Var(n), gen(rng.choice([2, 3, 4] if tier == 'quick' else [2, 3, 4, 5, 6]))) for n in ['A', 'B', 'C'][:rng.choice([1, 2] if tier == 'quick' else [1, 2, 3])])
        if not const_only_call(p) and not negative_base_power(p):
            sampled.append(p)
    progs = [p for p in progs if not negative_base_power(p)]
    if tier == 'quick':
        progs = rng.sample(progs, 220)
    return {'exhaustive': progs, 'fixed': fixed, 'sampled': sampled}


KNOWN_CLASSES = {
    'literal-single-precision': 'fortran-literal-kind',
    'compile:intrinsic-argument-kind': 'fortran-intrinsic-argument-kind',
}


def finding_key(r, b) -> str:
    cls = b.get('class', 'other')
    text = r['prog']
    if cls == 'value' and re.search(r'(?<![\w.])\d+\s*/\s*\d+(?![\w.])', text):
        return 'fortran-integer-division'
    if cls == 'value' and re.search(r'\*\*\s*\(?\s*-?\d+\s*/', text):
        return 'fortran-integer-division'
    if cls in KNOWN_CLASSES:
        return KNOWN_CLASSES[cls]
    return f"{cls}:{text[:100]}"


def main() -> int:
    tier = vlib.tier()
    rep = vlib.Report('C07', 'translation_validation', tier)
    ps = fortran_programs(tier, vlib.seed())
    items = [(p, None) for k in ('fixed', 'exhaustive', 'sampled') for p in ps[k]]
    items += [(p, None, 60) for p in ps['fixed'][-1:]]   # the long equation again with narrower wrapping
    results = run_items(work, items, soft_items=ps['sampled'])
    p0 = (Eq(Var('Y'), Bin('+', Var('X', off=-1), Var('Z'))), Eq(Var('Z'), Bin('*', Var('X'), Var('g', 'p'))))
    tw = [work((p0, 'row_swap')), work((p0, 'guard_off'))]
    tot: Dict[str, Any] = {}
    status: Dict[str, int] = {}
    samples, disagreements, nontrivial, within = [], 0, 0, 0
    assumptions = set()
    for r in results:
        if 'harness_error' in r:
            rep.error(f"{r['harness_error']} ({r.get('item')})")
            continue
        status[r['status']] = status.get(r['status'], 0) + 1
        add_stats(tot, r.get('stats', {}))
        assumptions.update(r.get('assumptions', []))
        if r['paths']:
            nontrivial += 1
        for b in r['bad']:
            disagreements += 1
            if b['replayed']:
                rep.violation(finding_key(r, b), f"{r['prog']!r}: {b['what']}", dict(b['replay'], program=r['prog']))
            elif b.get('within_rounding'):
                within += 1   # structural difference whose values agree within rounding on all replays: undecided by the solver
            else:
                rep.error(f"solver counterexample did not reproduce on the machine code: {r['prog']!r}: {b['what']}")
        if len(samples) < 8 and r['paths'] and len(r['prog']) > 14:
            samples.append({'program': r['prog'], 'joint_paths': r['paths'], 'queries': r['stats']})
    twin_rep = []
    for t in tw:
        hit = 'harness_error' not in t and any(b['replayed'] for b in t['bad'])
        twin_rep.append({'program': t.get('prog'), 'detected_and_replayed': hit})
        if not hit:
            rep.error(f'reachability twin not detected: {str(t)[:300]}')
    rep.assumptions = sorted(assumptions) + ['finite data (statement)', 'normalisations applied identically on both sides: + and * commutative, x**2 == x*x, '
                                             'powi(x,n) == pow(x, float(n)), max/min as symmetric functions of non-NaN operands, results compared cell by cell']
    rep.coverage.update({
        'programs': len(results),
        'disagreements_checked': disagreements,
        'samples': samples,
        'evaluations': tot.get('paths', 0),
        'distinct_nontrivial': nontrivial,
        'rule': 'one case = one program of the common subset (bounded-exhaustive <=3 nodes, fixed multi-equation / long-line programs, seeded samples); '
                'evaluation = one joint path of the gfortran IR of evaluate and the Python _evaluate over symbolic cells, t, L, plus the guard paths',
        'program_status': status,
        'structural_difference_within_rounding': within,
        'functions_encoded': ['fsic.fortran.build_fortran_definition (concrete)', 'GENERIC dump of the generated evaluate subroutine (gfortran -fdump-tree-original)',
                              'generated Python Model._evaluate'],
        'bounds': {'programs': {k: len(v) for k, v in ps.items()}, 'cells_t_L': 'unbounded (|t|, L < 2^30)', 'entry_point': 'evaluate only'},
        'queries': {k: tot.get(k, 0) for k in ('sat', 'unsat', 'unknown')},
        'solver_s': round(tot.get('solver_s', 0.0), 2),
        'paths': tot.get('paths', 0),
        'reachability_twin': twin_rep,
        'exhaustive': False,
        'slowest_cases': sorted(((r.get('wall_s', 0), r.get('prog', '')[:100]) for r in results if 'harness_error' not in r), reverse=True)[:5],
        'outside_claim': ['the compiled solve_t and solve routines and the FortranEngine wrapper (error-code mapping, statuses, iteration counts): '
                          'not translated (hundreds of lines of descriptor arithmetic each) and not instantiable here (no f2py)',
                          'programs outside the enumerated/sampled set', 'non-finite data'],
    })
    solve_t_part(rep, tier)
    return rep.finish()


def solve_t_part(rep, tier: str) -> None:
    """Second part: the generated `solve_t` SOURCE executed symbolically under the real FortranEngine wrapper (checks/fsolve.py)."""
    from checks.fsolve import FRANGE_TWINS, PROGRAMS, TWINS, explore_fany, frange_configs, fsolve_configs
    from gram.family import show
    cfgs = fsolve_configs(tier) + frange_configs(tier)
    TWINS = TWINS + FRANGE_TWINS
    for i, c in enumerate(cfgs):
        c['seed'] = vlib.seed() * 1000003 + i
    results = vlib.pmap(vlib.guarded(explore_fany), cfgs)
    tw = vlib.pmap(vlib.guarded(explore_fany), TWINS)
    tot = {'paths': 0, 'sat': 0, 'unsat': 0, 'unknown': 0, 'solver_s': 0.0, 'mismatch_paths': 0, 'spurious': 0}
    outcomes: Dict[str, int] = {}
    calls: Dict[str, int] = {}
    for cfg, r in zip(cfgs, results):
        if 'harness_error' in r:
            rep.error(f"solve_t part: {r['harness_error']} in config {r['item']}")
            continue
        if not r['exhausted'] or r['paths'] == 0:
            rep.error(f'solve_t part: exploration not exhaustive / vacuous for {cfg}')
        tot['paths'] += r['paths']
        for k in ('sat', 'unsat', 'unknown'):
            tot[k] += r['stats']['queries'].get(k, 0)
        tot['solver_s'] += r['stats']['solver_s']
        tot['mismatch_paths'] += r['mismatch_paths']
        tot['spurious'] += r['spurious_under_uf']
        for k, v in r['outcomes'].items():
            outcomes[k] = outcomes.get(k, 0) + v
        for k, v in r.get('shim_calls', {}).items():
            calls[k] = max(calls.get(k, 0), v)
        for cand in r['candidates']:
            if cand['replay']['bad']:
                if cfg['part'] == 'frange':
                    key = (f"solve:{cfg['prog']},max_iter={cfg['B']},periods={cfg['n_periods']},errors={cfg['errors']},failures={cfg['failures']},"
                           f"start={cfg['start']},end={cfg['end']},offset={cfg.get('offset', 0)}:{cand['replay']['bad'][0][:90]}")
                    if cfg.get('offset') and cfg['errors'] != 'raise' and 'IndexError' in str(cand['replay']['impl']):
                        key = 'solve:offset-outside-span-later-periods-solved'
                else:
                    key = (f"solve_t:{cfg['prog']},max_iter={cfg['B']},errors={cfg['errors']},failures={cfg['failures']},neg={cfg['neg']},"
                           f"offset={cfg['offset']}:{cand['replay']['bad'][0][:90]}")
                if cfg['B'] == 0 and cfg['part'] != 'frange':
                    key = 'solve_t:max_iter=0:' + cand['replay']['bad'][0][:90]
                rep.violation(key, '; '.join(cand['replay']['bad'][:4]) + f" | Python engine: {cand['replay']['python_engine']}",
                              {'kind': 'fsolve', 'cfg': r['cfg'], 'inputs': cand['inputs'], 'text': cand['replay']['text'],
                               'fortran_engine': cand['replay']['impl'], 'python_engine': cand['replay']['python_engine']})
            else:
                rep.error(f"solve_t part: solver counterexample did not reproduce on the machine code: cfg={r['cfg']} symbolic={cand['symbolic']}")
    twin_rep = []
    for cfg, r in zip(TWINS, tw):
        hit = 'harness_error' not in r and any(c['replay']['bad'] for c in r['candidates'])
        twin_rep.append({'twin': cfg['twin'], 'detected_and_replayed': hit})
        if not hit:
            rep.error(f"solve_t part: reachability twin {cfg['twin']!r} not detected: {str(r)[:200]}")
    cov = rep.coverage
    cov['evaluations'] = cov.get('evaluations', 0) + tot['paths']
    cov['paths'] = cov.get('paths', 0) + tot['paths']
    for k in ('sat', 'unsat', 'unknown'):
        cov['queries'][k] = cov['queries'].get(k, 0) + tot[k]
    cov['solver_s'] = round(cov.get('solver_s', 0.0) + tot['solver_s'], 2)
    cov['functions_encoded'] = list(cov.get('functions_encoded', [])) + [
        'generated Fortran SOURCE of solve, solve_t and evaluate (parsed and executed by fsrc)', 'fsic.fortran.FortranEngine.solve_t / solve (real code, on top)']
    cov['solve_t_part'] = {
        'configurations': len(cfgs), 'joint_paths': tot['paths'], 'mismatch_paths': tot['mismatch_paths'], 'spurious_under_uf': tot['spurious'],
        'models': {k: show(v) for k, v in PROGRAMS.items()},
        'bounds': {'max_iter': f"0..{2 if tier == 'quick' else 3}", 'min_iter': 'symbolic 0..max_iter+1', 'tol': 'any Float64', 'offset': 'symbolic -L-1..L+1 or 0',
                   'span': 'lags + leads + 1 (+1) periods', 'positions': 'positive and negative', 'errors': ['raise', 'skip', 'ignore', 'replace'],
                   'failures': ['raise', 'ignore'], 'values': 'every finite Float64 per cell and pass'},
        'outcome_histogram': outcomes, 'subroutine_calls_max_per_config': calls, 'reachability_twin': twin_rep,
        'solve_range': 'FortranEngine.solve() (generated `solve`, calling `solve_t` per period; 1..2 (3) feasible periods, default and explicit start/end incl. '
                       'reversed) against the ordered sequence of FortranEngine.solve_t() calls on a twin: return triple, exception, statuses, iterations, every cell',
        'replay': 'gfortran -shared build of the same source through ctypes with f2py\'s signatures, under the real wrapper, beside the real Python engine',
    }
    cov['outside_claim'] = [x for x in cov.get('outside_claim', []) if not x.startswith('the compiled solve_t and solve')] + [
        'FortranEngine.solve() on spans longer than lags + leads + 3 and with symbolic offsets (offsets -1 / +1 are crossed with every error policy)', 'non-finite data in the Fortran loop (C07 is stated for finite data; the engines differ there by design: replace)',
        'infeasible periods and index errors inside the Fortran routines (the wrapper reports them as FortranEngineError)',
        'gfortran\'s translation of the solve_t template to machine code (the SOURCE is interpreted; only counterexamples run on machine code)']
    rep.assumptions = sorted(set(rep.assumptions) | {a for r in results if 'harness_error' not in r for a in r['assumptions']})


if __name__ == '__main__':
    sys.exit(main())
