"""C06 -- numerical-error and failure policies follow the documented state
machine.  Same harness as C02 without the finiteness assumption: values range
over all of Float64, symbolic fault kinds per pass and per hook."""
from __future__ import annotations

import sys

import vlib
from checks.loopfam import default_cfg
from checks.loopdriver import run_family


def configs(tier: str):
    B_max = 2 if tier == 'quick' else 4
    out = []
    for errors in ('raise', 'skip', 'ignore', 'replace', 'bogus'):
        for failures in ('raise', 'ignore'):
            for cfe in (True, False):
                for B in range(0, B_max + 1):
                    for N in (0, 1, 2):
                        if N == 2 and B > (2 if tier == 'quick' else 3):
                            continue
                        for faults, hooks in ((False, False), (True, False), (True, True)):
                            if hooks and (N == 2 or B > 2):
                                continue
                            if faults and N == 2 and B > 2:
                                continue
                            for t, offset in ((1, 'zero'), (-1, 'zero'), (0, 'sym')):
                                if offset == 'sym' and (faults or N == 2 and B > 1):
                                    continue
                                out.append(default_cfg(N=N, B=B, errors=errors, failures=failures, cfe=cfe, t=t,
                                                       offset=offset, finite=False, faults=faults, hook_faults=hooks,
                                                       witness_rate=0.01 if tier == 'quick' else 0.03))
    return out


TWINS = [
    default_cfg(N=1, B=2, errors='skip', failures='ignore', finite=False, twin='status_swap'),
    default_cfg(N=1, B=1, errors='raise', finite=False, faults=True, twin='exc_swap'),
    default_cfg(N=1, B=2, errors='ignore', finite=False, twin='iters_off'),
]


def finding_key(cfg: dict, cand: dict) -> str:
    bad = cand['replay']['bad']
    return (f"errors={cfg['errors']},failures={cfg['failures']},cfe={cfg['cfe']},B={cfg['B']},N={cfg['N']},"
            f"faults={cfg['faults']},hooks={cfg['hook_faults']},t={cfg['t']},offset={cfg['offset']}:{bad[0] if bad else '?'}")


def main() -> int:
    tier = vlib.tier()
    rep = vlib.Report('C06', 'model_checking', tier)
    run_family(
        rep, configs(tier), TWINS,
        functions=['fsic.core.models.BaseModel.solve_t'],
        bounds={'max_iter': f"0..{2 if tier == 'quick' else 4}", 'check_variables': '0..2', 'span_length': 3,
                'errors': ['raise', 'skip', 'ignore', 'replace', 'bogus'], 'failures': ['raise', 'ignore'],
                'catch_first_error': [True, False],
                'fault_kinds': 'per pass symbolic in {none, warning at statement j, exception at statement j}; hooks likewise',
                'values': 'every Float64 (NaN, +-inf, +-0, subnormals) per cell and per pass', 'tol': 'any Float64',
                'min_iter': 'symbolic 0..max_iter+1'},
        outside=['max_iter < 0', 'more than two check variables', 'multi-period solve() (C05)',
                 "statuses/iterations after an exception under a policy other than 'raise' (unspecified by the statement)",
                 "'replace': baseline of the next comparison is the zero-substituted vector (interpretation, DESIGN C06)",
                 'parser-built models whose equations fault naturally (see C06 natural-fault variant)'],
        key_fn=finding_key,
    )
    return rep.finish()


if __name__ == '__main__':
    sys.exit(main())
