"""C06 -- numerical-error and failure policies follow the documented state
machine.  Same harness as C02 without the finiteness assumption: values range
over all of Float64, symbolic fault kinds per pass and per hook."""
from __future__ import annotations

import sys

import vlib
from checks.loopfam import default_cfg
from checks.loopdriver import run_family


def configs(tier: str):
    B_max = 2 if tier == 'quick' else 4
    out = []
    for errors in ('raise', 'skip', 'ignore', 'replace', 'bogus'):
        for failures in ('raise', 'ignore'):
            for cfe in (True, False):
                for B in range(0, B_max + 1):
                    for N in (0, 1, 2):
                        if N == 2 and B > (2 if tier == 'quick' else 3):
                            continue
                        for faults, hooks in ((False, False), (True, False), (True, True)):
                            if hooks and (N == 2 or B > (1 if tier == 'quick' else 2)):
                                continue
                            if faults and N == 2 and B > (1 if tier == 'quick' else 2):
                                continue
                            for t, offset in ((1, 'zero'), (-1, 'zero'), (0, 'sym')):
                                if offset == 'sym' and (faults or N == 2 and B > 1):
                                    continue
                                out.append(default_cfg(N=N, B=B, errors=errors, failures=failures, cfe=cfe, t=t,
                                                       offset=offset, finite=False, faults=faults, hook_faults=hooks, post_write=hooks,
                                                       witness_rate=0.01 if tier == 'quick' else 0.03))
    # a pre-solution hook that WRITES a check variable (any Float64, non-finite included): the policies are applied to the
    # values the passes produce, measured from the values the period held on entry
    for errors in ('raise', 'skip', 'ignore', 'replace'):
        for failures in ('raise', 'ignore'):
            for B in (1, 2) if tier == 'quick' else (0, 1, 2, 3):
                for N in (1, 2):
                    if tier == 'quick' and (N == 2 and B == 2 or failures == 'ignore' and errors in ('ignore', 'replace')):
                        continue
                    out.append(default_cfg(N=N, B=B, errors=errors, failures=failures, t=1, offset='zero', finite=False, pre_write=True,
                                           post_write=True))
    # ARBITRARY PRE-STATE / HISTORIES: a period that already carries a status ('.' from an earlier solve, 'E', 'S', 'F')
    # may hold non-finite values written since; the policies apply to what is there now, not to what the status suggests
    for errors in ('raise', 'skip', 'ignore', 'replace'):
        for failures in ('raise', 'ignore'):
            for B in (1, 2) if tier == 'quick' else (0, 1, 2, 3):
                for N in (1, 2):
                    if N == 2 and (tier == 'quick' or B > 2) and errors not in ('raise', 'replace'):
                        continue
                    out.append(default_cfg(N=N, B=B, errors=errors, failures=failures, t=1, offset='zero', finite=False,
                                           faults=(N == 1 and B == 1), status0='sym'))
                    for stage in ('rebind', 'reindex', 'copy'):
                        if N == 2 or (tier == 'quick' and failures == 'ignore'):
                            continue
                        out.append(default_cfg(N=N, B=B, errors=errors, failures=failures, t=-1 if stage == 'copy' else 1, offset='zero',
                                               finite=False, stage=stage, status0='sym' if stage == 'copy' else None))
    return out


TWINS = [
    default_cfg(N=1, B=2, errors='skip', failures='ignore', finite=False, twin='status_swap'),
    default_cfg(N=1, B=1, errors='raise', finite=False, faults=True, twin='exc_swap'),
    default_cfg(N=1, B=2, errors='ignore', finite=False, twin='iters_off'),
]


def finding_key(cfg: dict, cand: dict) -> str:
    bad = cand['replay']['bad']
    if cfg.get('part') == 'progloop':
        return f"progloop:{cfg['prog']},B={cfg['B']},errors={cfg['errors']},failures={cfg['failures']}:{bad[0] if bad else '?'}"
    if cfg.get('part') == 'natural':
        return f"natural:{cfg['prog']},errors={cfg['errors']},cfe={cfg['cfe']},B={cfg['B']}{',after=' + cfg['prior'] if cfg.get('prior') else ''}:{bad[0] if bad else '?'}"
    hist = (f",history={cfg['stage']}" if cfg.get('stage') else '') + (f",status0={cfg['status0']}" if cfg.get('status0') is not None else '')
    return (f"errors={cfg['errors']},failures={cfg['failures']},cfe={cfg['cfe']},B={cfg['B']},N={cfg['N']},"
            f"faults={cfg['faults']},hooks={cfg['hook_faults']},t={cfg['t']},offset={cfg['offset']}{hist}:{bad[0] if bad else '?'}")


# -- natural faults: parser-built models whose equations fault by themselves ---------------------------------------
NATURAL_PROGRAMS = {
    'div': 'Y = X / Z',
    'log': 'Y = log(X)',
    'exp': 'Y = exp(X)',
    'sub': 'Y = X - Z',
    'chain': 'A = X / Z\nB = A + 1',
}


def natural_configs(tier: str):
    out = []
    for name in NATURAL_PROGRAMS:
        if tier == 'quick' and name not in ('div', 'log', 'exp'):
            continue   # chains and x - z need IEEE subtraction of nested terms: 10-60 s per configuration (thorough tier)
        for errors in ('raise', 'skip', 'ignore', 'replace'):
            for cfe in (True, False):
                for B in ((1, 2) if tier == 'quick' else (1, 2, 3)):
                    if tier == 'quick' and ((B == 2 and (name == 'exp' or errors == 'replace')) or (errors == 'replace' and name != 'div')):
                        continue
                    if name == 'chain' and B == 1:
                        continue   # (its pass-1 comparison subtracts two uninterpreted values: z3 gives up)
                    out.append({'part': 'natural', 'prog': name, 'errors': errors, 'failures': 'ignore' if B == 1 else 'raise', 'cfe': cfe, 'B': B,
                                'L': 2, 't': 1, 'twin': None})
                    if B == 1 and name in ('div', 'log') and errors in ('raise', 'skip'):
                        # after earlier lenient solves that FAILED (NumPy's process-wide error state must be as before)
                        out.append({'part': 'natural', 'prog': name, 'errors': errors, 'failures': 'ignore', 'cfe': cfe, 'B': B,
                                    'L': 2, 't': 1, 'twin': None, 'prior': 'lenient_fail'})
    return out


def explore_any(cfg: dict) -> dict:
    if cfg.get('part') == 'natural':
        return explore_natural(cfg)
    if cfg.get('part') == 'progloop':
        from checks.progloop import explore_progloop
        return explore_progloop(cfg)
    from checks.loopfam import explore_config
    return explore_config(cfg)


def explore_natural(cfg: dict) -> dict:
    """Full solve_t on a parser-built model over symbolic data with IEEE arithmetic and NumPy's warning rules;
    the per-pass events (values, first warning statement) are derived by the AST reference interpreter and fed
    to the same reference state machine as the scripted family."""
    import contextlib
    import time
    import warnings

    import numpy as np
    import z3

    import fsic
    from checks import loopfam as lf
    from gram import Bin, Call, Env, Eq, Num, Var, evaluation_order, interp
    from gram.pipeline import REF_FUNCS
    from loopmodel import NONE, WARN, Script, ref_solve_t
    from symx import values as sv
    from symx.core import Ctx, cur
    from symx.src import ConSrc, SymSrc, witness
    from symx.values import SFloat, fpval

    t_start = time.time()
    text = NATURAL_PROGRAMS[cfg['prog']]
    prog = {
        'div': (Eq(Var('Y'), Bin('/', Var('X'), Var('Z'))),),
        'log': (Eq(Var('Y'), Call('log', (Var('X'),))),),
        'exp': (Eq(Var('Y'), Call('exp', (Var('X'),))),),
        'sub': (Eq(Var('Y'), Bin('-', Var('X'), Var('Z'))),),
        'chain': (Eq(Var('A'), Bin('/', Var('X'), Var('Z'))), Eq(Var('B'), Bin('+', Var('A'), Num('1')))),

    }[cfg['prog']]
    Model = fsic.build_model(fsic.parse_model(text))
    names = list(Model.NAMES)
    L, t, B = cfg['L'], cfg['t'], cfg['B']
    ctx = Ctx(budget_s=600, timeout_ms=30000)
    holder: dict = {}
    twin = cfg.get('twin')

    def default_errstate():
        np.seterr(**sv.ERRSTATE_DEFAULT)
        sv.ERRSTATE.update(sv.ERRSTATE_DEFAULT)

    def run(src, symbolic: bool):
        try:
            return run_(src, symbolic)
        finally:
            default_errstate()

    def run_(src, symbolic: bool):
        dtype = object if symbolic else float
        default_errstate()   # NumPy's defaults: divide / over / invalid warn, under ignored
        if cfg.get('prior') == 'lenient_fail':
            # HISTORY: an earlier solve of ANOTHER model under a lenient policy that ends in NonConvergenceError (and one
            # that ends in an evaluation error); whatever it switched off must be back on for the solve under test
            for kw0 in (dict(errors='ignore', failures='raise'), dict(errors='replace', failures='raise'), dict(errors='skip', failures='raise')):
                m0 = Model(list(range(L)), dtype=dtype)
                for n in names:
                    m0.__dict__['_' + n][:] = 1.0
                for n in Model.ENDOGENOUS:
                    m0.__dict__['_' + n][:] = 5.0
                try:
                    with warnings.catch_warnings():
                        warnings.simplefilter('ignore')
                        with (lf.shimmed() if symbolic else contextlib.nullcontext()):
                            m0.solve_t(t, max_iter=1, tol=1e-9, **kw0)
                except Exception:  # noqa: BLE001
                    pass
        m = Model(list(range(L)), dtype=dtype)
        cells = {n: [src.f(f'{n}_{j}') for j in range(L)] for n in names}
        for n in names:
            for j in range(L):
                m.__dict__['_' + n][j] = cells[n][j]
        tol = src.f('tol')
        status0 = [str(x) for x in m.status]
        min_iter = B if cfg['prog'] == 'chain' else 0   # chain: judge only the last pass (identical to the one before)
        kw = dict(min_iter=min_iter, max_iter=B, tol=tol, errors=cfg['errors'], failures=cfg['failures'], catch_first_error=cfg['cfe'])
        out = {}
        try:
            with warnings.catch_warnings():
                warnings.simplefilter('ignore')
                if symbolic:
                    with lf.shimmed():
                        r = m.solve_t(t, **kw)
                else:
                    r = m.solve_t(t, **kw)     # under the ambient error state (NumPy's defaults unless something leaked)
            out.update(kind='ret', ret=r, exc=None, cause=None)
        except Exception as e:  # noqa: BLE001
            out.update(kind='exc', ret=None, exc=type(e).__name__, cause=type(e.__cause__).__name__ if e.__cause__ is not None else None)
        out['status'], out['iters'] = str(m.status[t]), int(m.iterations[t])
        # reference: per-pass events from the AST interpreter under the same arithmetic / warning rules
        default_errstate()
        rcells = {n: [src.f(f'{n}_{j}') for j in range(L)] for n in names}
        order = evaluation_order(prog)
        check = [eq.target.name for eq in order]
        sc = Script(len(check), B)
        scratch = {n: list(v) for n, v in rcells.items()}
        for p in range(1, B + 1):
            first_warn = None
            vals = []
            for i, eq in enumerate(order):
                with warnings.catch_warnings(record=True) as w:
                    warnings.simplefilter('always')
                    if symbolic:
                        v = interp(eq.expr, Env(scratch, t, REF_FUNCS))
                    else:
                        with np.errstate(divide='warn', over='warn', invalid='warn', under='ignore'):
                            v = interp(eq.expr, Env({k: np.array(x) for k, x in scratch.items()}, t, dict(REF_FUNCS, log=np.log, exp=np.exp)))
                if w and first_warn is None:
                    first_warn = i
                if not symbolic and any('overflow encountered in scalar' in str(x.message) for x in w):
                    out['overflow_outside_claim'] = True
                vals.append(v)
                scratch[eq.target.name][t] = v
            sc.v[p] = vals
            sc.kind[p] = WARN if first_warn is not None else NONE
            sc.fs[p] = first_warn or 0
            out.setdefault('warned', []).append(first_warn)
            if twin == 'no_warn':
                sc.kind[p] = NONE
        ref = ref_solve_t(rcells, '-', -1, sc, t=t, L=L, min_iter=min_iter, max_iter=B, tol=src.f('tol'), offset=0, failures=cfg['failures'],
                          errors=cfg['errors'], cfe=cfg['cfe'], endogenous=check, check=check)
        bad = []
        if out['kind'] != ref.kind:
            bad.append(f"outcome impl={out['kind']}({out['exc']}) ref={ref.kind}({ref.exc})")
        elif ref.kind == 'ret' and out['ret'] != ref.ret:
            bad.append(f"return impl={out['ret']} ref={ref.ret}")
        elif ref.kind == 'exc' and (out['exc'] != ref.exc or (ref.cause is not None and out['cause'] != ref.cause)):
            bad.append(f"exception impl={out['exc']}/{out['cause']} ref={ref.exc}/{ref.cause}")
        if ref.status is not None and out['status'] != ref.status:
            bad.append(f"status[t] impl={out['status']!r} ref={ref.status!r}")
        if ref.iters is not None and out['iters'] != ref.iters:
            bad.append(f"iterations[t] impl={out['iters']} ref={ref.iters}")
        terms = []
        for n in names:
            for j in range(L):
                a, b = m.__dict__['_' + n][j], ref.cells[n][j]
                if symbolic:
                    at = a.t if isinstance(a, SFloat) else fpval(float(a))
                    bt = b.t if isinstance(b, SFloat) else fpval(float(b))
                    if not at.eq(bt) and cur()._check(at != bt) == 'sat':
                        bad.append(f'cell {n}[{j}] differs')
                        terms.append(at != bt)
                elif not lf._same_bits(float(a), float(b)):
                    bad.append(f'cell {n}[{j}] impl={float(a)!r} ref={float(b)!r}')
        return bad, terms, out

    def fn():
        src = SymSrc()
        holder['src'] = src
        sv.NATURAL[0] = True
        try:
            with warnings.catch_warnings():
                warnings.simplefilter('ignore')
                return run(src, True)
        finally:
            sv.NATURAL[0] = False

    res = {'cfg': dict(cfg), 'paths': 0, 'mismatch_paths': 0, 'candidates': [], 'outcomes': {}, 'witness_checked': 0, 'witness_bad': [],
           'spurious_under_uf': 0, 'nontrivial_paths': 0}
    import random
    rng = random.Random(cfg.get('seed', 0))
    for path in ctx.explore(fn):
        res['paths'] += 1
        if path.outcome[0] == 'exc':
            raise RuntimeError(f'harness raised on a path: {path.outcome[1]!r}')
        bad, terms, out = path.outcome[1]
        res['nontrivial_paths'] += 1
        okey = f"{out['kind']}:{out['exc'] or out['ret']}:{out['status']}:{out['iters']}"
        res['outcomes'][okey] = res['outcomes'].get(okey, 0) + 1
        if bad:
            res['mismatch_paths'] += 1
            if len(res['candidates']) >= 2:
                continue
            inp = witness(ctx, holder['src'], [z3.Or(*terms)] if terms and len(bad) == len(terms) else [])
            if inp is None:
                continue
            cb, _, cout = run(ConSrc(inp), False)
            if cout.get('overflow_outside_claim') and not cb:
                res['spurious_under_uf'] += 1   # the witness overflows in real arithmetic: outside the stated assumption
                continue
            res['candidates'].append({'symbolic': bad, 'inputs': inp, 'replay': {'bad': cb, 'impl': cout, 'ref': None}})
        elif rng.random() < 0.3 and res['witness_checked'] < 6:
            # path witness: concrete data on this path, real NumPy warnings, must agree with the symbolic outcome
            inp = witness(ctx, holder['src'], [], timeout_ms=15000)
            if inp is not None:
                cb, _, cout = run(ConSrc(inp), False)
                res['witness_checked'] += 1
                # ordinary quotients/products are uninterpreted, so WHICH of '.'/'F' a fault-free path ends in may differ
                # between the solver's model and real arithmetic; everything driven by special values must coincide:
                # which statement warned in each pass, and whether the period ended through the fault machinery
                def klass(o):
                    return (o['exc'], o['cause'], o['status'], o['iters']) if (o['status'] in ('E', 'S') or o['exc'] == 'SolutionError') else 'convergence-driven'
                same = klass(cout) == klass(out) and cout.get('warned') == out.get('warned')
                if cout.get('overflow_outside_claim'):
                    res['witness_checked'] -= 1   # finite operands overflowed in real arithmetic: excluded by assumption
                elif cb or not same:
                    res['witness_bad'].append({'inputs': inp, 'symbolic_impl': out, 'concrete_impl': cout, 'concrete_bad': cb})
    res['exhausted'] = ctx.exhausted
    res['smt_samples'] = list(ctx.samples)
    res['stats'] = ctx.stats.as_dict()
    res['assumptions'] = list(ctx.assumptions) + ["NumPy default error state: divide/over/invalid warn, under ignore; log/exp finite on finite in-range arguments"]
    res['shim_calls'] = {}
    res['wall_s'] = round(time.time() - t_start, 3)
    return res


def main() -> int:
    tier = vlib.tier()
    rep = vlib.Report('C06', 'model_checking', tier)
    run_family(
        rep, configs(tier) + natural_configs(tier) + __import__('checks.progloop', fromlist=['x']).progloop_configs(tier, finite=False), TWINS + [{'part': 'natural', 'prog': 'div', 'errors': 'raise', 'failures': 'ignore', 'cfe': True, 'B': 1, 'L': 2, 't': 1, 'twin': 'no_warn'}],
        functions=['fsic.core.models.BaseModel.solve_t'],
        bounds={'max_iter': f"0..{2 if tier == 'quick' else 4}", 'check_variables': '0..2', 'span_length': 3,
                'errors': ['raise', 'skip', 'ignore', 'replace', 'bogus'], 'failures': ['raise', 'ignore'],
                'catch_first_error': [True, False],
                'fault_kinds': 'per pass symbolic in {none, warning at statement j, exception at statement j}; hooks likewise',
                'values': 'every Float64 (NaN, +-inf, +-0, subnormals) per cell and per pass', 'tol': 'any Float64',
                'min_iter': 'symbolic 0..max_iter+1'},
        outside=['max_iter < 0', 'more than two check variables', 'multi-period solve() (C05)',
                 "statuses/iterations after an exception under a policy other than 'raise' (unspecified by the statement)",
                 "'replace': baseline of the next comparison is the zero-substituted vector (interpretation, DESIGN C06)",
                 'parser-built models whose equations fault naturally (see C06 natural-fault variant)'],
        key_fn=finding_key, explore=explore_any,
    )
    rep.coverage['natural_fault_models'] = NATURAL_PROGRAMS
    return rep.finish()


if __name__ == '__main__':
    sys.exit(main())
