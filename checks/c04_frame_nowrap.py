"""C04 -- solving a period touches only that period; reads never wrap.

(a) per enumerated program, generated _evaluate(t) on symbolic series with t in
    the range of the model's own LAGS/LEADS, both spellings, all L: every access
    is at t+k inside the span (z3, linear integer arithmetic) -- gram.pipeline;
(b) frame of a full solve_t on parser-built models over symbolic cells: after
    return or exception every cell other than (endogenous, t) is z3-equal to its
    initial value, status/iterations change only at t;
(c) rejected calls change nothing (C02/C06 joint paths, re-run here);
(d) a period that cannot hold the model's lags/leads is rejected, never served.
"""
from __future__ import annotations

import base64
import pickle

import sys
import time
import warnings
from typing import Any, Dict, List

import numpy as np
import z3

import fsic
import fsic.core.models as fmodels
import vlib
from checks import loopfam as lf
from gram import LAYOUTS, Bin, Call, Eq, Layout, Num, RefError, Var, classify, render
from gram.driver import add_stats, run_items
from gram.family import program_set, show
from gram.pipeline import equivalence, install_user_functions, parse_and_build, replay_values
from symx.core import Ctx, cur
from symx.src import ConSrc, SymSrc, witness
from symx.values import SFloat, SInt, fpval
from symx.zseries import ZSeries


def _term(x):
    return x.t if isinstance(x, SFloat) else fpval(float(x))


def _run(fn):
    try:
        with warnings.catch_warnings():
            warnings.simplefilter('ignore')
            return ('ret', fn())
    except Exception as e:  # noqa: BLE001
        return ('exc', type(e).__name__, type(e.__cause__).__name__ if e.__cause__ is not None else None)


# -- (a) -------------------------------------------------------------------------------------------
def reads_case(item) -> Dict[str, Any]:
    prog, twin = item
    text = render(prog, Layout())
    out = {'kind': 'reads', 'item': show(prog), 'paths': 0, 'stats': {}, 'bad': [], 'assumptions': [], 'exhausted': True}
    try:
        ref = classify(prog)
    except RefError:
        return out
    pb = parse_and_build(text, **({'lags': 0} if twin == 'lags_zero' else {}))
    if 'error' in pb:
        return out  # acceptance is C01's business
    for spelling in ('pos', 'neg'):
        r = equivalence(prog, ref, pb['Model'], pb['symbols'], spelling=spelling, check_text=False, range_from='model')
        out['paths'] += r['paths']
        add_stats(out['stats'], r['stats'])
        out['assumptions'] = r['assumptions']
        out['exhausted'] = out['exhausted'] and r['exhausted']
        for b in r['bad']:
            rb = replay_values(prog, pb['Model'], b['witness'], seed=vlib.seed())
            out['bad'].append({'what': '; '.join(b['symbolic'][:3]) + f' [{spelling}]', 'replayed': bool(rb),
                               'values': {'text': text, 'witness': b['witness'], 'concrete': rb, 'program_pickle': base64.b64encode(pickle.dumps(prog)).decode()}})
    return out


# -- (b) frame of a full solve_t -------------------------------------------------------------------------
def frame_case(item) -> Dict[str, Any]:
    prog, t_pos, extra_len, B, errors, failures, neg, twin = item
    install_user_functions()
    text = render(prog, Layout())
    pb = parse_and_build(text)
    out = {'kind': 'frame', 'item': f'{show(prog)} @t={t_pos} B={B} {errors}/{failures}', 'paths': 0, 'stats': {}, 'bad': [],
           'assumptions': [], 'exhausted': True}
    if 'error' in pb:
        return {'harness_error': f'frame program rejected: {pb}', 'item': show(prog)}
    Model = pb['Model']
    L = Model.LAGS + Model.LEADS + 1 + extra_len
    if not (Model.LAGS <= t_pos <= L - 1 - Model.LEADS):
        return out
    t = t_pos - L if neg else t_pos
    ctx = Ctx(budget_s=300)
    holder: Dict[str, Any] = {}

    def scenario(src, dtype, symbolic):
        m = Model(list(range(1990, 1990 + L)), dtype=dtype)
        init = {}
        for n in m.names:
            arr = m.__dict__['_' + n]
            for j in range(L):
                arr[j] = src.f(f'{n}_{j}')
            init[n] = list(arr)
        tol = src.f('tol')
        st0, it0 = [str(x) for x in m.status], [int(x) for x in m.iterations]
        cm = lf.shimmed() if symbolic else _null()
        with cm:
            a = _run(lambda: m.solve_t(t, max_iter=B, tol=tol, errors=errors, failures=failures))
        bad, terms = [], []
        for n in m.names:
            for j in range(L):
                if j == t_pos and (n in m.endogenous or twin == 'allow_all'):
                    continue
                x, y = m.__dict__['_' + n][j], init[n][j]
                if symbolic:
                    xt, yt = _term(x), _term(y)
                    if not xt.eq(yt) and cur()._check(xt != yt) == 'sat':
                        bad.append(f'cell {n}[{j}] changed by solve_t({t})')
                        terms.append(xt != yt)
                elif not lf._same_bits(float(x), float(y)):
                    bad.append(f'cell {n}[{j}] changed by solve_t({t}): {float(y)!r} -> {float(x)!r}')
        if twin == 'forbid_t':
            n0 = m.endogenous[0]
            x, y = m.__dict__['_' + n0][t_pos], init[n0][t_pos]
            if symbolic:
                if cur()._check(_term(x) != _term(y)) == 'sat':
                    bad.append('twin: endogenous cell at t changed')
                    terms.append(_term(x) != _term(y))
            elif not lf._same_bits(float(x), float(y)):
                bad.append('twin: endogenous cell at t changed')
        for j in range(L):
            if j != t_pos and (str(m.status[j]) != st0[j] or int(m.iterations[j]) != it0[j]):
                bad.append(f'status/iterations changed at position {j} != t')
        return bad, terms, a

    def fn():
        src = SymSrc()
        holder['src'] = src
        bad, terms, a = scenario(src, object, True)
        return {'bad': bad, 'terms': terms, 'a': a}

    for path in ctx.explore(fn):
        out['paths'] += 1
        if path.outcome[0] == 'exc':
            raise RuntimeError(repr(path.outcome[1]))
        r = path.outcome[1]
        if r['bad'] and len(out['bad']) < 2:
            inp = witness(ctx, holder['src'], [z3.Or(*r['terms'])] if r['terms'] else [])
            if inp is None:
                continue
            cb, _, ca = scenario(ConSrc(inp), float, False)
            out['bad'].append({'what': '; '.join(r['bad'][:3]), 'replayed': bool(cb), 'values': {'text': text, 'inputs': inp, 'concrete': cb}})
    out['stats'] = ctx.stats.as_dict()
    out['assumptions'] = ctx.assumptions
    out['exhausted'] = ctx.exhausted
    return out


class _null:
    def __enter__(self):
        return self

    def __exit__(self, *a):
        return False


# -- (d) infeasible period is rejected -------------------------------------------------------------------------
def infeasible_case(item) -> Dict[str, Any]:
    prog, extra_len, errors, twin = item[:4]
    untyped = len(item) > 4 and item[4] == 'untyped'
    install_user_functions()
    text = render(prog, Layout())
    pb = parse_and_build(text, **({'with_type_hints': False} if untyped else {}))
    out = {'kind': 'infeasible', 'item': f'{show(prog)} +{extra_len} {errors}' + (' untyped-template' if untyped else ''), 'paths': 0, 'stats': {}, 'bad': [],
           'assumptions': [], 'exhausted': True}
    if 'error' in pb:
        return {'harness_error': f'program rejected: {pb}', 'item': show(prog)}
    Model = pb['Model']
    ref = classify(prog)      # the lags / leads the SCRIPT needs (reference), not what the built class declares
    lags, leads = ref['lags'], ref['leads']
    if lags + leads == 0:
        return out
    L = lags + leads + 1 + extra_len
    ctx = Ctx(budget_s=300)
    tz = z3.Int('t')
    post = z3.If(tz < 0, tz + L, tz)
    ctx.assume(z3.And(tz >= -L, tz < L), f'-L <= t < L (L={L})')
    if twin == 'feasible':
        ctx.assume(z3.And(post >= lags, post <= L - 1 - leads), 'twin: feasible periods')
    else:
        ctx.assume(z3.Or(post < lags, post > L - 1 - leads), 'period cannot hold the lags/leads (outside the default range)')

    # the periods may carry ANY status already (e.g. every period solved, then the model reindexed to a sub-span: an edge
    # period that was feasible before is not any more)
    ctx.assume(z3.And(z3.Int('status_all') >= 0, z3.Int('status_all') < len(lf.STATUS_LIST)), f'status of every period before the call in {lf.STATUS_LIST}')

    def fn():
        m = Model(list(range(L)))
        log: list = []
        for n in m.names:
            m.__dict__['_' + n] = ZSeries(n, L, log)
        st = lf.STATUS_LIST[SInt('status_all').__index__()]
        m.status = st
        m.iterations = -1 if st == '-' else lf.ITERS0
        with lf.shimmed():
            a = _run(lambda: m.solve_t(SInt(tz), max_iter=1, errors=errors, failures='ignore', tol=SFloat('tol')))
        served = a[0] == 'ret' or (a[0] == 'exc' and a[1] == 'NonConvergenceError')
        return {'served': served, 'a': a[:2]}

    for path in ctx.explore(fn):
        out['paths'] += 1
        if path.outcome[0] == 'exc':
            raise RuntimeError(repr(path.outcome[1]))
        r = path.outcome[1]
        if r['served'] and len(out['bad']) < 3:
            m_ = path.model()
            t = m_.eval(tz, model_completion=True).as_long()
            # replay on real arrays with distinguishable finite data
            mm = Model(list(range(L)))     # (the class built above: typed or untyped template)
            for i, n in enumerate(mm.names):
                mm[n] = np.arange(L, dtype=float) * 0.25 + 1.5 + i
            st0 = lf.STATUS_LIST[m_.eval(z3.Int('status_all'), model_completion=True).as_long()]
            mm.status = st0
            mm.iterations = -1 if st0 == '-' else lf.ITERS0
            with np.errstate(all='ignore'):
                ca = _run(lambda: mm.solve_t(t, max_iter=1, errors=errors, failures='ignore'))
            ok = ca[0] == 'ret' or (ca[0] == 'exc' and ca[1] == 'NonConvergenceError')
            out['bad'].append({'what': f'solve_t({t}) on a span of {L} periods with LAGS={lags} LEADS={leads} was served ({r["a"]}) instead of rejected',
                               'replayed': ok, 'values': {'text': text, 't': t, 'L': L, 'status_before': st0, 'outcome': ca[:2]}})
    out['stats'] = ctx.stats.as_dict()
    out['assumptions'] = ctx.assumptions
    out['exhausted'] = ctx.exhausted
    return out


# -- (c) rejected calls change nothing: joint paths of the loop family -----------------------------------------
def rejected_case(cfg) -> Dict[str, Any]:
    r = lf.explore_config(cfg)
    rejected = sum(v for k, v in r['outcomes'].items() if k.split(':')[1] in ('ValueError', 'IndexError')
                   or (k.startswith('exc:SolutionError:-:-1')))
    bad = []
    for c in r['candidates']:
        bad.append({'what': '; '.join(c['replay']['bad'][:3]) or '; '.join(c['symbolic'][:3]), 'replayed': bool(c['replay']['bad']),
                    'values': {'cfg': r['cfg'], 'inputs': c['inputs']}})
    return {'kind': 'rejected', 'item': str({k: cfg[k] for k in ('N', 'B', 'errors', 't', 'offset', 'faults')}), 'paths': r['paths'],
            'stats': r['stats'], 'bad': bad, 'assumptions': r['assumptions'], 'exhausted': r['exhausted'], 'rejected_paths': rejected}


def dispatch(item):
    kind, payload = item
    return {'reads': reads_case, 'frame': frame_case, 'infeasible': infeasible_case, 'rejected': rejected_case}[kind](payload)


LAGGED = [
    (Eq(Var('Y'), Bin('+', Bin('*', Num('0.5'), Var('Y', off=-1)), Var('X'))),),
    (Eq(Var('Y'), Bin('+', Var('Y', off=1), Var('X'))),),
    (Eq(Var('Y'), Bin('+', Var('X', off=-2), Var('Z', off=1))),),
    (Eq(Var('A'), Bin('+', Var('B', off=-1), Var('g', 'p'))), Eq(Var('B'), Bin('*', Var('A'), Var('e', 'e', off=1)))),
    (Eq(Var('Y'), Call('max', (Var('Y', off=-1), Var('X', off=-3)))),),
]


def main() -> int:
    tier = vlib.tier()
    rep = vlib.Report('C04', 'translation_validation', tier)
    ps = program_set(tier, vlib.seed(), samples_quick=100, samples_thorough=800)
    items: List[Any] = []
    n_prog = 0
    from gram import walk
    for k in ('fixed', 'exhaustive', 'conditional', 'sampled'):
        for p in ps[k]:
            # a program without any lag or lead reads and writes position t only (C01 decides that); the
            # no-wrap obligation is posed for the programs that have offsets
            if not any(isinstance(n, Var) and n.off for eq in p for n in walk(eq.expr)):
                continue
            items.append(('reads', (p, None)))
            n_prog += 1
    frame_progs = list(ps['fixed'][:4]) + LAGGED
    for p in frame_progs:
        for extra in (0, 1) if tier == 'quick' else (0, 1, 2):
            for t_pos in range(0, 6):
                for neg in (False, True):
                    for (B, errors, failures) in ((1, 'raise', 'raise'), (2, 'ignore', 'ignore'), (1, 'skip', 'ignore'), (2, 'replace', 'raise')):
                        if tier == 'quick' and neg and B == 2:
                            continue
                        items.append(('frame', (p, t_pos, extra, B, errors, failures, neg, None)))
    for p in LAGGED + list(ps['fixed'][:3]):
        for extra in (0, 1, 2):
            for errors in ('raise', 'ignore'):
                items.append(('infeasible', (p, extra, errors, None)))
            if extra == 1:     # the class built from the template without type hints
                items.append(('infeasible', (p, extra, 'raise', None, 'untyped')))
    for errors in ('raise', 'skip', 'ignore'):
        for t, offset in ((1, 'sym'), (-1, 'sym'), (0, 'zero')):
            for N in (1, 2):
                items.append(('rejected', lf.default_cfg(N=N, B=1, errors=errors, t=t, offset=offset, finite=False,
                                                         faults=False, with_z=True)))
                if N == 1 and offset == 'zero' or t == 1:   # spans with repeated labels: bookkeeping is by position
                    items.append(('rejected', lf.default_cfg(N=N, B=1, errors=errors, t=t, offset='zero', finite=False,
                                                             faults=False, with_z=True, span_kind='dup')))
                if N == 1:   # catch_first_error off: rejection of pre-existing non-finite values does not depend on it
                    items.append(('rejected', lf.default_cfg(N=N, B=1, errors=errors, t=t, offset=offset, finite=False,
                                                             faults=False, with_z=True, cfe=False)))
                if N == 1:   # a rejected RE-solve (the period already carries a status) changes nothing either
                    items.append(('rejected', lf.default_cfg(N=N, B=1, errors=errors, t=t, offset=offset, finite=False,
                                                             faults=False, with_z=True, status0='sym')))
    for errors in ('raise', 'ignore'):
        for t in (-1, 2, 0):   # repeated labels: the period solved is the one at position t, not the first one carrying its label
            items.append(('rejected', lf.default_cfg(N=1, B=2, errors=errors, failures='ignore', t=t, offset='zero', finite=False, faults=False,
                                                     with_z=True, span_kind='dup')))
    results = run_items(dispatch, items, soft_items=[('reads', (p, None)) for p in ps['sampled']])
    twins = [dispatch(('reads', (LAGGED[0], 'lags_zero'))),
             dispatch(('frame', (LAGGED[0], 1, 1, 1, 'raise', 'ignore', False, 'forbid_t'))),
             dispatch(('infeasible', (LAGGED[0], 1, 'ignore', 'feasible')))]

    tot: Dict[str, Any] = {}
    by_kind: Dict[str, int] = {}
    paths_by_kind: Dict[str, int] = {}
    samples, assumptions, disagreements, rejected_paths, nontrivial = [], set(), 0, 0, 0
    for r in results:
        if 'harness_error' in r:
            rep.error(f"{r['harness_error']} ({r.get('item')})")
            continue
        by_kind[r['kind']] = by_kind.get(r['kind'], 0) + 1
        paths_by_kind[r['kind']] = paths_by_kind.get(r['kind'], 0) + r['paths']
        add_stats(tot, r['stats'])
        assumptions.update(r['assumptions'])
        rejected_paths += r.get('rejected_paths', 0)
        if r['paths']:
            nontrivial += 1
        if not r['exhausted']:
            rep.error(f"not exhaustively explored: {r['kind']} {r['item']}")
        for b in r['bad']:
            disagreements += 1
            if b['replayed']:
                rep.violation(finding_key(r, b), f"{r['item']}: {b['what']}", b.get('values'))
            else:
                rep.error(f"counterexample did not reproduce: {r['kind']} {r['item']}: {b['what']}")
        if len(samples) < 8 and r['paths'] > 1 and by_kind[r['kind']] <= 3:
            samples.append({'obligation': r['kind'], 'case': r['item'], 'paths': r['paths']})
    twin_rep = []
    for t in twins:
        hit = 'harness_error' not in t and any(b['replayed'] for b in t['bad'])
        twin_rep.append({'obligation': t.get('kind'), 'detected_and_replayed': hit})
        if not hit:
            rep.error(f'reachability twin not detected: {str(t)[:300]}')
    for k in ('reads', 'frame', 'infeasible', 'rejected'):
        if not paths_by_kind.get(k):
            rep.error(f'no path explored for obligation {k} (vacuous)')
    if not rejected_paths:
        rep.error('no rejected call was reached (vacuous (c))')
    rep.assumptions = sorted(assumptions)
    rep.coverage.update({
        'programs': n_prog + len(frame_progs),
        'disagreements_checked': disagreements,
        'samples': samples,
        'evaluations': tot.get('paths', 0),
        'distinct_nontrivial': nontrivial,
        'rule': 'reads: one case per enumerated program and spelling of t (symbolic cells, t, L); frame: (program, position, '
                'span slack, options) with symbolic cells and tol; infeasible: (program, span slack, errors) with symbolic '
                'infeasible t; rejected: loop-family configurations; evaluation = explored path; non-trivial = case with >= 1 path',
        'cases_by_obligation': by_kind,
        'paths_by_obligation': paths_by_kind,
        'rejected_call_paths': rejected_paths,
        'functions_encoded': ['generated Model._evaluate', 'fsic.core.models.BaseModel.solve_t', 'parse_model/build_model (concrete, per program)'],
        'bounds': {'reads': 'cells, t, L unbounded; programs as C01', 'frame': 'span length LAGS+LEADS+1..+2(3), max_iter<=2, every feasible position in both spellings',
                   'infeasible': 'every position of a span of length LAGS+LEADS+1..+3 outside the default range, max_iter=1'},
        'queries': {k: tot.get(k, 0) for k in ('sat', 'unsat', 'unknown')},
        'solver_s': round(tot.get('solver_s', 0.0), 2),
        'paths': tot.get('paths', 0),
        'reachability_twin': twin_rep,
        'exhaustive': False,
        'outside_claim': ['verbatim code', 'the Fortran engine (C07)', 'start/end choices of solve() (C05 ties solve() to solve_t)',
                          'non-zero offset combined with non-finite copied values under errors=raise (C02 copy-first vs C04 unchanged: unspecified)'],
    })
    return rep.finish()


def finding_key(r, b) -> str:
    if r['kind'] == 'infeasible':
        return 'infeasible-period-served'
    return f"{r['kind']}:{r['item'][:80]}:{b['what'][:50]}"


if __name__ == '__main__':
    sys.exit(main())
