"""Driver shared by the loop-family checks: fan configurations out over a
process pool, aggregate statistics, turn replayed candidates into findings."""
from __future__ import annotations

import os
from typing import Callable, List

import vlib
from checks.loopfam import explore_config


def run_family(rep: vlib.Report, cfgs: List[dict], twins: List[dict], *, functions, bounds, outside,
               key_fn: Callable[[dict, dict], str], explore=explore_config, extra_cov=None) -> None:
    seed = vlib.seed()
    for i, c in enumerate(cfgs):
        c['seed'] = seed * 1000003 + i
    results = vlib.pmap(vlib.guarded(explore), cfgs)
    tw_results = vlib.pmap(vlib.guarded(explore), twins)

    tot = {'paths': 0, 'decisions': 0, 'forks': 0, 'sat': 0, 'unsat': 0, 'unknown': 0, 'solver_s': 0.0,
           'witness': 0, 'spurious': 0, 'mismatch_paths': 0, 'nontrivial': 0, 'aborted': 0}
    outcomes: dict = {}
    samples: list = []
    assumptions: set = set()
    shim_calls: dict = {}
    for cfg, r in zip(cfgs, results):
        if 'harness_error' in r:
            rep.error(f"{r['harness_error']} in config {r['item']}")
            continue
        if not r['exhausted']:
            rep.error(f'exploration not exhaustive for {cfg}')
        st = r['stats']
        tot['paths'] += r['paths']
        tot['decisions'] += st['decisions']
        tot['forks'] += st['forks']
        tot['aborted'] += st['aborted_paths']
        for k in ('sat', 'unsat', 'unknown'):
            tot[k] += st['queries'].get(k, 0)
        tot['solver_s'] += st['solver_s']
        tot['witness'] += r['witness_checked']
        tot['spurious'] += r['spurious_under_uf']
        tot['mismatch_paths'] += r['mismatch_paths']
        tot['nontrivial'] += r.get('nontrivial_paths', 0)
        for k, v in r['outcomes'].items():
            outcomes[k] = outcomes.get(k, 0) + v
        assumptions.update(r['assumptions'])
        for k, v in r.get('shim_calls', {}).items():
            shim_calls[k] = max(shim_calls.get(k, 0), v)
        if r['paths'] == 0:
            rep.error(f'no path reached the final comparison (vacuous) for {cfg}')
        for wb in r['witness_bad']:
            rep.error(f'path witness disagrees with the symbolic run (engine/shim unsound?): cfg={r["cfg"]} {wb}')
        for cand in r['candidates']:
            if cand['replay']['bad']:
                key = key_fn(cfg, cand)
                rep.violation(key, '; '.join(cand['replay']['bad'][:4]),
                              {'kind': 'loopfam', 'cfg': r['cfg'], 'inputs': cand['inputs'],
                               'impl': cand['replay']['impl'], 'ref': cand['replay']['ref']})
            else:
                rep.error(f'solver counterexample did not reproduce on the real code: cfg={r["cfg"]} '
                          f'symbolic={cand["symbolic"]} inputs={cand["inputs"]}')
        if len(samples) < 6 and r['paths']:
            samples.append({'config': r['cfg'], 'joint_paths': r['paths'], 'outcomes': r['outcomes'],
                            'queries': st['queries']})
    slow = sorted(((r.get('wall_s', 0), str(r.get('cfg'))[:300]) for r in results if 'harness_error' not in r), reverse=True)[:5]
    rep.coverage['slowest_configs'] = slow
    if os.environ.get('SYMX_SAMPLE_EVERY'):
        smt = [x for r in results if 'harness_error' not in r for x in r.get('smt_samples', [])]
        cs = vlib.cross_solver(smt)
        rep.coverage['cross_solver'] = cs
        for dgr in cs['disagreements']:
            rep.error(f'solvers disagree on a sampled query: {dgr}')
    twin_report = []
    for cfg, r in zip(twins, tw_results):
        if 'harness_error' in r:
            rep.error(f"twin: {r['harness_error']}")
            continue
        hit = [c for c in r['candidates'] if c['replay']['bad']]
        twin_report.append({'twin': cfg['twin'], 'paths': r['paths'], 'replayed_counterexamples': len(hit)})
        if not hit:
            rep.error(f"reachability twin {cfg['twin']!r} was not detected (harness cannot see violations)")
    rep.assumptions = sorted(assumptions)
    rep.coverage.update({
        'states': tot['paths'],
        'transitions': tot['decisions'],
        'traces_validated_against_impl': tot['witness'],
        'samples': samples,
        'evaluations': tot['paths'],
        'distinct_nontrivial': tot['nontrivial'],
        'rule': 'one evaluation = one feasible joint path (decision sequence) of implementation + reference for one '
                'enumerated configuration, covering every value of the symbolic inputs on that path; distinct by '
                'decision sequence; non-trivial = at least one evaluation pass ran',
        'exhaustive': not rep.errors,
        'configurations': len(cfgs),
        'functions_encoded': functions,
        'bounds': bounds,
        'symbolic_inputs': ['every cell of every series (Float64)', 'per-pass values', 'tol', 'min_iter', 'offset',
                            'fault kinds and positions (where enabled)'],
        'stubs': {'fsic.core.models.np': 'symx.npshim.NpShim (array/isfinite/any/all/abs on proxy vectors)',
                  'intercepted_calls_max_per_config': shim_calls,
                  'arithmetic': 'uninterpreted + - * / ** for exploration; IEEE-754 (z3 FloatingPoint) to confirm sat'},
        'queries': {'sat': tot['sat'], 'unsat': tot['unsat'], 'unknown': tot['unknown']},
        'solver_s': round(tot['solver_s'], 2),
        'paths': tot['paths'],
        'aborted_paths': tot['aborted'],
        'forks': tot['forks'],
        'mismatch_paths': tot['mismatch_paths'],
        'spurious_under_uf': tot['spurious'],
        'outcome_histogram': outcomes,
        'reachability_twin': twin_report,
        'outside_claim': outside,
    })
    if extra_cov:
        rep.coverage.update(extra_cov)
