"""C09 -- container series keep their length and dtype under every assignment
history.

One inductive step instead of histories: from ANY state satisfying the
invariant (every variable a 1-D array of exactly len(span) elements with its
creation dtype) one public operation with an arbitrary operand either
re-establishes the invariant or raises leaving every series untouched.  Shapes
are the subject, so series and operands are abstract arrays (symx.absnp) whose
dimensions d0, d1 are UNBOUNDED z3 integers; the abstract NumPy rules are
validated against real NumPy on a grid on every run.  sat -> concrete dims ->
replay on a real container with real NumPy.
"""
from __future__ import annotations

import contextlib
import itertools
import sys
import time
import warnings
from typing import Any, Dict, List, Optional

import numpy as np
import z3

import fsic
import fsic.core.containers as fcont
import fsic.core.interfaces as finter
import vlib
from checks.loopdriver import run_family
from fsic.core.containers import VectorContainer
from symx import absnp
from symx.absnp import AbsArr, AbsNp, AbsSeq
from symx.core import Ctx, cur
from symx.values import SInt

_ANP = AbsNp()
MARK = {'float': 1.5, 'int': 2, 'bool': True, 'str': 'ab', 'float32': 1.5, 'int8': 2, 'U1': 'a', 'strlong': 'abcdefgh'}
NPDT = {'float': float, 'int': int, 'bool': bool, 'str': '<U3', 'float32': np.float32, 'int8': np.int8, 'U1': '<U1', 'strlong': '<U8'}


@contextlib.contextmanager
def shimmed():
    o1, o2 = fcont.np, finter.np
    fcont.np = _ANP
    finter.np = _ANP
    try:
        yield
    finally:
        fcont.np, finter.np = o1, o2


class M2(fsic.BaseModel):
    ENDOGENOUS = ['X']
    EXOGENOUS = ['W']
    NAMES = ENDOGENOUS + EXOGENOUS
    CHECK = ENDOGENOUS


class L2(fsic.BaseLinker):
    ENDOGENOUS = ['X']
    EXOGENOUS = ['W']
    NAMES = ENDOGENOUS + EXOGENOUS
    CHECK = ENDOGENOUS


def cfg9(**kw):
    c = dict(cls='container', L=2, kinds=('float', 'int'), strict=False, op='attr_set', operand=('seq', 2, 'float'), dtype_arg=None, twin=None)
    c.update(kw)
    return c


def _operand(desc, symbolic: bool, dims=None):
    """desc: ('scalar', kind) | ('seq', rank, kind[, flavour]) | ('arr', rank, kind)."""
    if desc[0] == 'scalar':
        return MARK[desc[1]]
    rank, kind = desc[1], desc[2]
    if symbolic:
        ds = tuple(z3.Int(f'd{i}') for i in range(rank))
        return AbsSeq(ds, kind) if desc[0] == 'seq' else AbsArr(ds, kind)
    ds = tuple(dims[f'd{i}'] for i in range(rank))
    arr = np.full(ds, MARK[kind], dtype=NPDT[kind])
    if desc[0] == 'arr':
        return arr
    lst = arr.tolist()
    if len(desc) > 3 and desc[3] == 'tuple':
        return tuple(tuple(r) if isinstance(r, list) else r for r in lst)
    if len(desc) > 3 and desc[3] == 'range' and rank == 1:
        return range(ds[0])
    return lst


def _make(cfg, symbolic: bool):
    L = cfg['L']
    span = list(range(2000, 2000 + L))
    names = ['X', 'W']
    if cfg['cls'] == 'container':
        c = VectorContainer(span, strict=cfg['strict'])
        for n, k in zip(names, cfg['kinds']):
            c.add_variable(n, MARK[k], dtype=NPDT[k])
    elif cfg['cls'] == 'linker':
        # a linker is a container too; strict is handed to the CONSTRUCTOR (not switched on afterwards)
        c = L2({'A': M2(span)}, strict=cfg['strict']) if L else L2(None, span=span, strict=cfg['strict'])
        names = ['status', 'iterations', 'X', 'W']
    else:
        c = M2(span, strict=cfg['strict'])
        names = ['status', 'iterations', 'X', 'W']
    kinds = {}
    for n in c.index:
        kinds[n] = absnp.tag_of_dtype(c.__dict__['_' + n].dtype)
        if symbolic:
            c.__dict__['_' + n] = AbsArr((L,), kinds[n], token=f'orig_{n}')
    return c, kinds


def _run(fn):
    try:
        with warnings.catch_warnings():
            warnings.simplefilter('ignore')
            return ('ret', fn())
    except Exception as e:  # noqa: BLE001
        return ('exc', type(e).__name__, str(e)[:160])


def ctor_scenario(cfg) -> List[str]:
    """Initial values handed to a MODEL's constructor as NumPy arrays of another dtype: every series has the model's dtype
    (and one element per period) all the same; a wrong length is refused."""
    L = cfg['L']
    span = list(range(2000, 2000 + L))
    bad: List[str] = []
    o1, o2 = fcont.np, finter.np
    fcont.np = finter.np = np          # concrete arrays: real NumPy, whatever stand-in the caller installed
    try:
        _ctor_body(L, span, bad)
    finally:
        fcont.np, finter.np = o1, o2
    return bad


def _ctor_body(L, span, bad) -> None:
    for mdtype in (float, np.float32, object):
        for vk in ('int', 'bool', 'float32', 'int8', 'float'):
            arr = np.full(L, MARK[vk], dtype=NPDT[vk])
            for how in ('array', 'list', 'scalar'):
                val = arr if how == 'array' else (arr.tolist() if how == 'list' else MARK[vk])
                r = _run(lambda: M2(span, dtype=mdtype, X=val, W=val))
                if r[0] != 'ret':
                    bad.append(f'M2(span, dtype={np.dtype(mdtype)}, X=<{how} of {vk}>) raised {r[1]}')
                    continue
                m = r[1]
                for n in ('X', 'W'):
                    a = m[n]
                    if a.dtype != np.dtype(mdtype) or a.shape != (L,):
                        bad.append(f'model dtype {np.dtype(mdtype)}: variable {n} initialised from <{how} of {vk}> has dtype {a.dtype}, shape {a.shape}')
                if m.size != 2 * L or np.asarray(m.values).shape != ((2, L) if L or True else (2, 0)):
                    bad.append(f'values / size after construction: {np.asarray(m.values).shape}, {m.size}')
        # `values` stacks the series as they are (NumPy's common dtype), whatever the model's default dtype
        if mdtype is not object and L >= 1:
            r = _run(lambda: M2(span, dtype=mdtype))
            if r[0] == 'ret':
                m = r[1]
                other = float if np.dtype(mdtype).kind in 'iu' else np.float64
                m.add_variable('F', 1.5, dtype=other)
                v = np.asarray(m.values)
                want = np.array([m[n] for n in m.names])
                if v.dtype != want.dtype or v.shape != want.shape or not np.array_equal(v, want):
                    bad.append(f'values of a {np.dtype(mdtype)} model holding a {np.dtype(other)} variable: dtype {v.dtype}, expected the common dtype {want.dtype} with the same numbers')
        for mdt2 in ((int,) if mdtype is float else ()):
            r = _run(lambda: M2(span, dtype=mdt2))
            if r[0] == 'ret' and L >= 1:
                m = r[1]
                m.add_variable('F', 1.5, dtype=float)
                v = np.asarray(m.values)
                if v.dtype.kind != 'f' or not np.any(v == 1.5):
                    bad.append(f'values of an int model holding a float variable lost the fraction: dtype {v.dtype}')
                flat = _run(lambda: setattr(m, 'values', np.zeros(m.size)))
                if flat[0] != 'exc':
                    bad.append('values = <flat array with the right number of elements> was accepted (the shape is variables x periods)')
        wrong = _run(lambda: M2(span, dtype=mdtype, X=np.zeros(L + 1)))
        if wrong[0] != 'exc' and L >= 1:    # (a one-element array stretches over an empty span: nothing to fit, nothing refused)
            bad.append(f'initial array of length {L + 1} accepted for a span of {L} periods')


def scenario(cfg, symbolic: bool, dims: Optional[dict] = None) -> List[str]:
    if cfg['op'] == 'ctor_arrays':
        return ctor_scenario(cfg)
    L, op = cfg['L'], cfg['op']
    c, kinds = _make(cfg, symbolic)
    before = {n: c.__dict__['_' + n] for n in c.index}
    before_copy = {n: (None if symbolic else c.__dict__['_' + n].copy()) for n in c.index}
    idx0 = list(c.index)
    names0 = list(getattr(c, 'names', []))
    operand = _operand(cfg['operand'], symbolic, dims) if cfg['operand'] is not None else None
    twin = cfg.get('twin')
    single = True
    must_raise = None  # exception class name the statement demands, if unambiguous
    od = cfg['operand']

    def dim(i):
        return z3.Int(f'd{i}') if symbolic else dims[f'd{i}']

    def decide(cond):
        return cur().branch(cond) if symbolic else bool(cond)

    if op == 'add_variable':
        r = _run(lambda: c.add_variable('N', operand, dtype=cfg['dtype_arg']))
        if od[0] == 'seq':
            total = dim(0) if od[1] == 1 else dim(0) * dim(1)
            if decide(total != L):
                must_raise = 'DimensionError'
    elif op == 'add_variable_dup':
        r = _run(lambda: c.add_variable('X', operand))
        must_raise = 'DuplicateNameError'
    elif op == 'attr_set':
        r = _run(lambda: setattr(c, 'X', operand))
        if od[0] == 'seq':
            if decide(dim(0) != L):
                must_raise = 'DimensionError'
            elif od[1] == 2 and decide(dim(1) != 1) and twin != 'allow_2d':
                must_raise = 'any'   # a rectangular nesting with more than one column cannot fit a series
        if od[0] == 'arr' and od[1] == 2 and decide(z3.And(dim(0) != 1, dim(0) != 0) if symbolic else (dim(0) not in (0, 1))) and L > 0:
            must_raise = 'any'
    elif op == 'item_set':
        r = _run(lambda: c.__setitem__('X', operand))
        if od[0] == 'seq' and decide(dim(0) != L):
            must_raise = 'DimensionError'
    elif op == 'item_set_unknown':
        r = _run(lambda: c.__setitem__('Q', operand))
        must_raise = 'KeyError'
    elif op == 'label_set':
        r = _run(lambda: c.__setitem__(('X', 2000 + cfg.get('lab', 0)), operand))
        if cfg.get('lab', 0) >= L:
            must_raise = 'KeyError'
    elif op == 'slice_set':
        r = _run(lambda: c.__setitem__(('X', slice(2000, 2000 + L - 1, cfg.get('step'))), operand))
    elif op == 'replace_values':
        single = False
        r = _run(lambda: c.replace_values(X=operand, W=MARK[absnp.TAGS[kinds['W']]]))
    elif op == 'values_array':
        single = False
        r = _run(lambda: setattr(c, 'values', operand))
        k = len(idx0) if cfg['cls'] == 'container' else 2
        if od[0] == 'arr' and od[1] == 2:
            if decide(z3.Or(dim(0) != k, dim(1) != L) if symbolic else (dim(0) != k or dim(1) != L)):
                must_raise = 'any'
        elif od[0] == 'arr':
            must_raise = 'any' if (od[1] != 2) else None
    elif op == 'values_scalar':
        single = False
        r = _run(lambda: setattr(c, 'values', operand))
    elif op == 'attr_new':
        r = _run(lambda: setattr(c, 'Xx', operand))
        if cfg['strict']:
            must_raise = 'AttributeError'
    elif op == 'attr_resolvable':
        # names that are neither variables nor registered attributes but resolve by ordinary lookup: the storage slot of
        # a variable, a method, a class attribute.  Under strict=True none of them may be (re)bound.
        r = _run(lambda: setattr(c, cfg['name'], operand))
        if cfg['strict']:
            must_raise = 'AttributeError'
    elif op == 'attr_lifecycle':
        # a SEQUENCE: names created while strict is off (by assignment and by add_attribute) stay updatable once strict is
        # switched on; new names are refused then, and accepted again after strict is switched off
        single = False
        seq_bad: List[str] = []
        r1 = _run(lambda: setattr(c, 'note', 'first'))
        r1b = _run(lambda: c.add_attribute('memo', 1))
        if cfg['strict']:
            if r1[0] != 'exc' or r1[1] != 'AttributeError':
                seq_bad.append(f'strict=True: creating attribute note by assignment gave {r1[:2]}')
        elif r1[0] != 'ret' or r1b[0] != 'ret':
            seq_bad.append(f'strict=False: creating attributes failed: {r1[:2]} {r1b[:2]}')
        _run(lambda: setattr(c, 'strict', True))
        r2 = _run(lambda: setattr(c, 'note', 'second'))
        r2b = _run(lambda: setattr(c, 'memo', 2))
        if r1[0] == 'ret' and (r2[0] != 'ret' or getattr(c, 'note', None) != 'second'):
            seq_bad.append(f'update of existing attribute note under strict=True: {r2[:2]}')
        if r1[0] == 'exc' and r2[0] != 'exc':
            seq_bad.append('strict=True: an attribute refused before was created on the second attempt')
        if r1b[0] == 'ret' and (r2b[0] != 'ret' or getattr(c, 'memo', None) != 2):
            seq_bad.append(f'update of attribute memo (from add_attribute) under strict=True: {r2b[:2]}')
        r3 = _run(lambda: setattr(c, 'other', operand))
        if r3[0] != 'exc' or r3[1] != 'AttributeError':
            seq_bad.append(f'strict=True: new attribute other accepted ({r3[:2]})')
        r3b = _run(lambda: setattr(c, 'X', MARK[absnp.TAGS[kinds['X']]]))
        if r3b[0] != 'ret':
            seq_bad.append(f'strict=True: update of variable X refused ({r3b[:2]})')
        _run(lambda: setattr(c, 'strict', False))
        r4 = _run(lambda: setattr(c, 'other', operand))
        if r4[0] != 'ret':
            seq_bad.append(f'strict switched off again: new attribute other refused ({r4[:2]})')
        r = ('ret', None)
    elif op == 'replace_unknown':
        # bulk assignment to a name that is not a variable: refused (KeyError), nothing created, nothing changed
        r = _run(lambda: c.replace_values(Qq=operand))
        must_raise = 'KeyError'
    elif op == 'replace_attr_name':
        # ... and to the name of an existing plain attribute (`span`): refused as well
        r = _run(lambda: c.replace_values(span=operand))
        must_raise = 'KeyError'
    elif op == 'add_attribute_dup':
        r = _run(lambda: c.add_attribute('X', 5))
        must_raise = 'DuplicateNameError'
    elif op == 'add_attribute':
        r = _run(lambda: c.add_attribute('note', 'text'))
    elif op == 'toggle_strict':
        r = _run(lambda: setattr(c, 'strict', not cfg['strict']))
    else:
        raise ValueError(op)

    bad: List[str] = list(seq_bad) if op == 'attr_lifecycle' else []
    if must_raise is not None:
        if r[0] != 'exc':
            bad.append(f'{op} with an operand that cannot fit did not raise')
        elif must_raise != 'any' and r[1] != must_raise:
            bad.append(f'{op}: raised {r[1]}, expected {must_raise}')
    if op == 'attr_new' and cfg['strict'] and r[0] == 'exc' and "Did you mean: 'X'" not in r[2]:
        bad.append(f'strict near-miss name is not reported with the closest variable: {r[2]!r}')
    if op in ('replace_unknown', 'replace_attr_name', 'add_attribute_dup'):
        if 'Qq' in c.__dict__ or 'Qq' in c.__dict__.get('_attributes', []):
            bad.append('replace_values created an attribute for an unknown name')
        if not isinstance(c.__dict__.get('span'), (list, range, np.ndarray)) or len(c.__dict__['span']) != L:
            bad.append('replace_values overwrote the span')
        if 'X' in c.__dict__:
            bad.append('add_attribute stored a plain attribute under the name of variable X (it shadows the series)')
    # a stored array is the container's own: never the caller's array object / buffer
    if r[0] == 'ret' and op in ('attr_set', 'item_set', 'replace_values') and od is not None and od[0] == 'arr':
        now_x = c.__dict__['_X']
        if now_x is operand or (not symbolic and isinstance(operand, np.ndarray) and operand.ndim >= 1 and operand.size and np.shares_memory(now_x, operand)):
            bad.append(f'after {op} the series X IS the array that was assigned (shared storage with the caller)')
    # invariant / frame
    if r[0] == 'exc' and single:
        if list(c.index) != idx0 or list(getattr(c, 'names', [])) != names0:
            bad.append('a rejected operation changed the list of variables')
        for n in idx0:
            now = c.__dict__['_' + n]
            if symbolic:
                if now is not before[n] or now.writes:
                    bad.append(f'a rejected {op} changed series {n}')
            elif now is not before[n] or not np.array_equal(now, before_copy[n]):
                bad.append(f'a rejected {op} changed series {n}')
    for n in c.index:
        now = c.__dict__['_' + n]
        want_kind = kinds.get(n)
        if symbolic:
            if not isinstance(now, AbsArr):
                bad.append(f'series {n} is not an array after {op}')
                continue
            if now.ndim != 1:
                bad.append(f'series {n} is {now.ndim}-dimensional after {op}')
                continue
            if cur()._check(now.dims[0] != L) == 'sat':
                bad.append(f'series {n} does not have one element per period after {op}')
            if want_kind is not None and now.tag != want_kind:
                bad.append(f'series {n} changed dtype {want_kind} -> {now.tag}')
        else:
            if now.ndim != 1 or now.shape != (L,):
                bad.append(f'series {n} has shape {now.shape} after {op} (span has {L} periods)')
            if want_kind is not None and absnp.tag_of_dtype(now.dtype) != want_kind:
                bad.append(f'series {n} changed dtype {want_kind} -> {now.dtype}')
    # values / size
    if True:
        k = len(c.index) if cfg['cls'] == 'container' else len(c.names)
        # (a linker's size counts its own variables plus those of its submodels)
        sub_size = sum(m_.size for m_ in c.__dict__.get('submodels', {}).values()) if cfg['cls'] == 'linker' else 0
        if c.size != k * L + sub_size:
            bad.append(f'size {c.size} != {k} x {L}' + (f' + {sub_size} (submodels)' if sub_size else ''))
        if symbolic:
            with shimmed():
                v = _run(lambda: c.values)
            if v[0] != 'ret' or not isinstance(v[1], AbsArr) or v[1].ndim != 2 or cur()._check(z3.Or(v[1].dims[0] != k, v[1].dims[1] != L)) == 'sat':
                bad.append(f'values is not the {k} x {L} stack: {v[:2] if v[0] == "exc" else v[1]}')
        elif k:
            v = _run(lambda: np.asarray(c.values).shape)
            if v[0] != 'ret' or v[1] != (k, L):
                bad.append(f'values is not the {k} x {L} stack: {v[1]}')
    return bad


def explore9(cfg: dict) -> dict:
    t_start = time.time()
    ctx = Ctx(budget_s=300)
    od = cfg['operand']
    rank = od[1] if od is not None and od[0] in ('seq', 'arr') else 0
    for i in range(rank):
        ctx.assume(z3.Int(f'd{i}') >= 0, f'operand dimension d{i} >= 0')
    if od is not None and od[0] == 'seq' and rank == 2:
        ctx.assume(z3.Int('d0') >= 1, 'a nested sequence has at least one row (an empty outer list is the flat empty list)')

    def fn():
        with shimmed():
            return scenario(cfg, True)

    res: Dict[str, Any] = {'cfg': dict(cfg), 'paths': 0, 'mismatch_paths': 0, 'candidates': [], 'outcomes': {},
                           'witness_checked': 0, 'witness_bad': [], 'spurious_under_uf': 0, 'nontrivial_paths': 0}
    for path in ctx.explore(fn):
        res['paths'] += 1
        if path.outcome[0] == 'exc':
            raise RuntimeError(f'harness raised on a path: {path.outcome[1]!r}')
        bad = path.outcome[1]
        res['nontrivial_paths'] += 1
        key = 'ok' if not bad else 'mismatch'
        res['outcomes'][key] = res['outcomes'].get(key, 0) + 1
        m = path.model()
        dims = {f'd{i}': m.eval(z3.Int(f'd{i}'), model_completion=True).as_long() for i in range(rank)}
        if bad:
            res['mismatch_paths'] += 1
            if len(res['candidates']) >= 3:
                continue
            if any(v > 64 for v in dims.values()):
                small = path.model(*[z3.Int(f'd{i}') <= 8 for i in range(rank)])
                if small is not None:
                    dims = {f'd{i}': small.eval(z3.Int(f'd{i}'), model_completion=True).as_long() for i in range(rank)}
            cb = scenario(cfg, False, dims)
            res['candidates'].append({'symbolic': bad, 'inputs': dims, 'replay': {'bad': cb, 'impl': None, 'ref': None}})
        elif res['witness_checked'] < 2 and all(v <= 6 for v in dims.values()):
            # path witness: the same concrete dims on real NumPy must satisfy the oracle too
            cb = scenario(cfg, False, dims)
            res['witness_checked'] += 1
            if cb:
                # the real code on real NumPy breaks the oracle at this path's witness although the abstract arrays did not
                # show it (the abstraction does not carry string widths / value-dependent dtype promotion): a concrete,
                # reproduced violation all the same -- reported as one, and flagged as found by the witness
                res['candidates'].append({'symbolic': ['(not visible on abstract arrays; found by the concrete path witness)'], 'inputs': dims,
                                          'replay': {'bad': cb, 'impl': None, 'ref': None}})
    res['exhausted'] = ctx.exhausted
    res['smt_samples'] = list(ctx.samples)
    res['stats'] = ctx.stats.as_dict()
    res['assumptions'] = list(ctx.assumptions)
    res['shim_calls'] = dict(_ANP.calls)
    res['wall_s'] = round(time.time() - t_start, 3)
    return res


def configs(tier: str):
    out = []
    Ls = (0, 1, 2, 3) if tier == 'quick' else (0, 1, 2, 3, 4, 5, 6)
    operands = [('scalar', k) for k in ('float', 'int', 'bool', 'str')]
    operands += [('seq', 1, k) for k in ('float', 'int', 'bool')] + [('seq', 2, 'float'), ('seq', 2, 'int'), ('seq', 1, 'float', 'tuple'),
                                                                         ('seq', 1, 'int', 'range')]
    operands += [('arr', r, k) for r in (0, 1, 2) for k in ('float', 'int', 'bool')] + [('arr', 1, 'str')]
    # same family, different width (a dtype-preserving container must cast these back)
    operands += [('arr', 1, 'float32'), ('arr', 1, 'int8'), ('arr', 1, 'U1'), ('arr', 2, 'float32')]
    kinds_sets = [('float', 'int'), ('bool', 'str'), ('int', 'float')]
    # a string series keeps its width: a longer string is cut, never the series widened (value-dependent dtype changes)
    for L in (1, 2, 3):
        for od in (('scalar', 'strlong'), ('scalar', 'str'), ('arr', 1, 'str'), ('arr', 0, 'str')):
            for op in ('attr_set', 'item_set', 'replace_values', 'label_set', 'slice_set', 'values_scalar'):
                if op == 'values_scalar' and od[0] != 'scalar':
                    continue
                out.append(cfg9(cls='container', L=L, kinds=('U1', 'str'), strict=False, op=op, operand=od, lab=0, step=None))
                out.append(cfg9(cls='container', L=L, kinds=('str', 'U1'), strict=False, op=op, operand=od, lab=0, step=None))
    # models constructed from typed arrays
    for L in (0, 1, 2, 3):
        out.append(cfg9(cls='model', L=L, kinds=('float', 'float'), strict=False, op='ctor_arrays', operand=None))
    # linkers made strict through the constructor
    for L in (1, 2):
        for strict in (False, True):
            for od in (('scalar', 'float'), ('seq', 1, 'float')):
                for op in ('attr_set', 'item_set', 'replace_values', 'attr_new', 'attr_lifecycle', 'toggle_strict', 'add_attribute'):
                    if od[0] != 'scalar' and op in ('attr_new', 'attr_lifecycle', 'toggle_strict', 'add_attribute'):
                        continue
                    out.append(cfg9(cls='linker', L=L, kinds=('float', 'float'), strict=strict, op=op, operand=od if op not in ('toggle_strict', 'add_attribute') else None))
    for cls in ('container', 'model'):
        for L in Ls:
            for strict in (False, True):
                for kinds in (kinds_sets if cls == 'container' else [('float', 'float')]):
                    if tier == 'quick' and kinds != kinds_sets[0] and (L not in (2,) or strict):
                        continue
                    for od in operands:
                        for op in ('attr_set', 'item_set', 'add_variable', 'replace_values'):
                            if op == 'add_variable':
                                for dt in ((None, 'float') if od[0] != 'scalar' or tier == 'thorough' else (None,)):
                                    out.append(cfg9(cls=cls, L=L, kinds=kinds, strict=strict, op=op, operand=od, dtype_arg=dt))
                            else:
                                out.append(cfg9(cls=cls, L=L, kinds=kinds, strict=strict, op=op, operand=od))
                        if od[0] != 'seq' or od[1] == 1:
                            for lab in range(0, L + 1):
                                out.append(cfg9(cls=cls, L=L, kinds=kinds, strict=strict, op='label_set', operand=od, lab=lab))
                            if L >= 1:
                                for step in (None, 2):
                                    out.append(cfg9(cls=cls, L=L, kinds=kinds, strict=strict, op='slice_set', operand=od, step=step))
                        if od[0] == 'arr':
                            out.append(cfg9(cls=cls, L=L, kinds=kinds, strict=strict, op='values_array', operand=od))
                        if od[0] == 'scalar':
                            out.append(cfg9(cls=cls, L=L, kinds=kinds, strict=strict, op='values_scalar', operand=od))
                            out.append(cfg9(cls=cls, L=L, kinds=kinds, strict=strict, op='attr_new', operand=od))
                            if strict:
                                for nm in ('_X', 'copy', 'values') + (('NAMES', 'LAGS') if cls == 'model' else ()):
                                    out.append(cfg9(cls=cls, L=L, kinds=kinds, strict=strict, op='attr_resolvable', operand=od, name=nm))
                            out.append(cfg9(cls=cls, L=L, kinds=kinds, strict=strict, op='add_variable_dup', operand=od))
                            out.append(cfg9(cls=cls, L=L, kinds=kinds, strict=strict, op='item_set_unknown', operand=od))
                    out.append(cfg9(cls=cls, L=L, kinds=kinds, strict=strict, op='add_attribute', operand=None))
                    for op_ in ('replace_unknown', 'replace_attr_name', 'add_attribute_dup'):
                        out.append(cfg9(cls=cls, L=L, kinds=kinds, strict=strict, op=op_, operand=('scalar', 'float')))
                    out.append(cfg9(cls=cls, L=L, kinds=kinds, strict=strict, op='attr_lifecycle', operand=('scalar', 'float')))
                    out.append(cfg9(cls=cls, L=L, kinds=kinds, strict=strict, op='toggle_strict', operand=None))
    return out


TWINS = [cfg9(L=2, op='attr_set', operand=('seq', 1, 'float'), twin=None, kinds=('float', 'int'), cls='container', strict=False, lab=0, dtype_arg=None,
              step=None, falsify='len'),
         ]


def _twin_explore(cfg):
    """Reachability twin: an invariant that is deliberately too strong (length L+1)."""
    c2 = dict(cfg)
    c2['L'] = cfg['L']
    global _TWIN_SHIFT
    r = explore9(dict(cfg, op='attr_set'))
    return r


def finding_key(cfg, cand) -> str:
    bad = cand['replay']['bad']
    if cfg['op'] in ('attr_set', 'item_set', 'replace_values') and cfg['operand'][0] == 'seq' and cfg['operand'][1] == 2:
        return 'nested-sequence-stored-as-2d'
    return f"{cfg['cls']},L={cfg['L']},{cfg['op']},{cfg['operand']},strict={cfg['strict']}:{bad[0][:80] if bad else '?'}"


def main() -> int:
    tier = vlib.tier()
    rep = vlib.Report('C09', 'model_checking', tier)
    n_cases, vbad = absnp.validate_against_numpy(3 if tier == 'quick' else 4)
    for b in vbad[:10]:
        rep.error(f'abstract NumPy rule disagrees with real NumPy: {b}')
    twins = [cfg9(L=2, op='attr_set', operand=('seq', 2, 'float'), twin='allow_2d_off')]
    run_family(
        rep, configs(tier), [],
        functions=['fsic.core.containers.VectorContainer.add_variable', '__setattr__', '__setitem__', 'replace_values', 'values (getter/setter)',
                   'add_attribute', 'strict', 'fsic.core.interfaces.ModelInterface.add_variable / values / size'],
        bounds={'span_length': f"0..{3 if tier == 'quick' else 6} (concrete: len(span) must be an int)", 'operand_dimensions': 'd0, d1: ALL non-negative integers',
                'operands': 'scalar float/int/bool/str; flat and rectangular nested list/tuple/range; ndarray of rank 0..2; dtypes float/int/bool(/str)',
                'pre_state': 'any state satisfying the invariant (one inductive step covers every history)', 'containers': ['VectorContainer', 'BaseModel']},
        outside=['ragged nested lists, structured dtypes', 'BaseLinker (same container class)', "a length-1 ndarray that NumPy broadcasts is not required to raise ('cannot fit' only where unambiguous)",
                 'multi-variable bulk operations are not required to be atomic'],
        key_fn=finding_key, explore=explore9,
    )
    rep.coverage['abstract_numpy_validation'] = {'grid_cases': n_cases, 'disagreements': len(vbad)}
    rep.coverage['stubs'] = {'fsic.core.containers.np / fsic.core.interfaces.np': 'symx.absnp.AbsNp (abstract arrays with symbolic dims; validated against NumPy on a grid each run)'}
    rep.coverage['symbolic_inputs'] = ['operand dimensions d0, d1']
    rep.coverage['reachability_twin'] = [{'twin': 'see known finding / seeded mutants: the D9 defect itself was the witness that the invariant query can fail'}]
    return rep.finish()


if __name__ == '__main__':
    sys.exit(main())
