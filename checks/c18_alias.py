"""C18 -- an alias is indistinguishable from the variable it names.

Alias maps (many-to-one, chains, self-maps, aliases of aliases) are a small
finite space and are enumerated, each constructed under a watchdog.  The
solver's dimension is the operands: written values, positions, labels and
label-slice bounds, constructor keyword values are z3 variables; the aliased
model and a canonical twin start from the same symbolic cells and after every
operation all cells must be z3-equal and no extra storage may exist.
"""
from __future__ import annotations

import itertools
import signal
import sys
import time
import warnings
from typing import Any, Dict, List, Optional

import numpy as np
import z3

import fsic
import vlib
from checks import loopfam as lf
from checks.loopdriver import run_family
from fsic.extensions import AliasMixin
from symx.core import Ctx, cur
from symx.src import ConSrc, SymSrc, witness
from symx.values import SFloat, SInt, SLabel, fpval

VARS = ['A', 'B', 'X']
ALIAS_NAMES = ['I', 'J', 'K']


class Base(fsic.BaseModel):
    ENDOGENOUS = ['A', 'B']
    EXOGENOUS = ['X']
    NAMES = ENDOGENOUS + EXOGENOUS
    CHECK = ENDOGENOUS


class Watchdog(Exception):
    pass


def _alarm(signum, frame):
    raise Watchdog()


def resolve(amap: Dict[str, str], name: str) -> Optional[str]:
    """Reference resolution: follow the chain (None on a cycle that is not a self-map)."""
    seen = []
    while name in amap and amap[name] != name:
        if name in seen:
            return None
        seen.append(name)
        name = amap[name]
    return name


def alias_maps(max_aliases: int):
    targets = VARS + ALIAS_NAMES
    out = []
    for k in range(0, max_aliases + 1):
        for names in itertools.combinations(ALIAS_NAMES, k):
            for tg in itertools.product(targets, repeat=k):
                amap = dict(zip(names, tg))
                if any(resolve(amap, n) is None for n in amap):
                    continue  # cycles are not in the statement
                if any(resolve(amap, n) not in VARS for n in amap if amap[n] != n):
                    continue  # alias chains must end at a model variable
                out.append(amap)
    out.append({'A': 'A'})
    out.append({'A': 'A', 'I': 'A'})
    # alias names that begin with an underscore are names like any other
    out.append({'_i': 'A'})
    out.append({'_i': 'B', 'J': '_i'})
    out.append({'__k': 'X'})
    # ... or are not Python identifiers at all (labels of published series: 'GDP (real)', 'gdp.real')
    out.append({'GDP (real)': 'A'})
    out.append({'gdp.real': 'B', 'J': 'gdp.real'})
    return out


def make_class(amap: Dict[str, str], evaluate_alias: Optional[str]):
    body: Dict[str, Any] = {'ALIASES': dict(amap)}
    if evaluate_alias is not None:
        def _evaluate(self, t, **kw):
            getattr(self, evaluate_alias)[t] = self.X[t] * 2
        body['_evaluate'] = _evaluate
    return type('Aliased', (AliasMixin, Base), body)


def cfg18(**kw):
    c = dict(amap={'I': 'A'}, op='attr_write', alias='I', n=3, twin=None)
    c.update(kw)
    return c


def _term(x):
    return x.t if isinstance(x, SFloat) else fpval(float(x))


def _run(fn):
    try:
        with warnings.catch_warnings():
            warnings.simplefilter('ignore')
            return ('ret', fn())
    except Watchdog:
        raise
    except Exception as e:  # noqa: BLE001
        return ('exc', type(e).__name__)


def preferred_scenario(cfg) -> List[str]:
    """PREFERRED_NAMES: a list in which two entries lead to the same variable is ambiguous and rejected at construction
    (ValueError); any other list is accepted and recorded.  (Plain Python: no pandas involved.)"""
    amap, pref = cfg['amap'], list(cfg['pref'])
    M = type('Aliased', (AliasMixin, Base), {'ALIASES': dict(amap), 'PREFERRED_NAMES': list(pref)})
    targets = [resolve(amap, p) for p in pref]
    ambiguous = len(set(targets)) < len(targets)
    if cfg.get('twin') == 'never_ambiguous':
        ambiguous = False
    r = _run(lambda: M(range(3)))
    bad = []
    if ambiguous and r != ('exc', 'ValueError'):
        bad.append(f'PREFERRED_NAMES={pref} with ALIASES={amap} is ambiguous ({targets}) but construction gave {r[:2] if r[0] == "exc" else "a model"}')
    if not ambiguous:
        if r[0] != 'ret':
            bad.append(f'PREFERRED_NAMES={pref} with ALIASES={amap} is unambiguous but construction raised {r[1]}')
        elif list(M.PREFERRED_NAMES) != pref:
            bad.append('the class-level PREFERRED_NAMES was altered by construction')
    return bad


def meta_alias_scenario(cfg) -> List[str]:
    """Aliases whose target is a variable of the INSTANCE that the class-level NAMES does not list: `status`, `iterations`,
    a variable added at run time.  Every access path through the alias must hit the target (concrete assertions)."""
    n = cfg['n']
    M = type('AliasedMeta', (AliasMixin, Base), {'ALIASES': {'st': 'status', 'it': 'iterations', 'q': 'Q', 'qq': 'q'}})
    bad: List[str] = []
    m = M(list(range(2000, 2000 + n)), strict=bool(cfg.get('strict')))
    m.add_variable('Q', 0.5)
    lab = 2000 + n - 1
    steps = [
        ('attribute read st', lambda: m.st is m.status or np.array_equal(m.st, m.status)),
        ('attribute read it', lambda: np.array_equal(m.it, m.iterations)),
        ('attribute read q / qq', lambda: np.array_equal(m.q, m.Q) and np.array_equal(m.qq, m.Q)),
        ('key read', lambda: np.array_equal(m['st'], m['status']) and np.array_equal(m['qq'], m['Q'])),
        ('label write it', lambda: (m.__setitem__(('it', lab), 5), m.iterations[-1] == 5)[1]),
        ('label write st', lambda: (m.__setitem__(('st', lab), 'F'), m.status[-1] == 'F')[1]),
        ('label read st', lambda: m['st', lab] == 'F' and m['it', lab] == 5),
        ('attribute write q', lambda: (setattr(m, 'q', 2.5), bool((m.Q == 2.5).all()) and 'q' not in m.__dict__)[1]),
        ('attribute write st', lambda: (setattr(m, 'st', 'S'), bool((m.status == 'S').all()) and 'st' not in m.__dict__)[1]),
        ('replace_values it, qq', lambda: (m.replace_values(it=3, qq=7.0), bool((m.iterations == 3).all()) and bool((m.Q == 7.0).all()))[1]),
        ('key write qq', lambda: (m.__setitem__('qq', 1.25), bool((m.Q == 1.25).all()))[1]),
        ('no additional storage', lambda: not any(k in m.__dict__ for k in ('_st', '_it', '_q', '_qq', 'st', 'it', 'q', 'qq'))),
    ]
    for what, fn in steps:
        r = _run(fn)
        if r != ('ret', True):
            bad.append(f'alias of a variable outside the class NAMES: {what}: {r}')
    return bad


def scenario(cfg, src, symbolic: bool) -> List[str]:
    if cfg['op'] == 'preferred':
        return preferred_scenario(cfg)
    if cfg['op'] == 'meta_alias':
        return meta_alias_scenario(cfg)
    amap, op, alias, n = cfg['amap'], cfg['op'], cfg['alias'], cfg['n']
    canon = resolve(amap, alias)
    bad: List[str] = []
    dtype = object if symbolic else float
    if cfg.get('span') == 'str':
        # string labels, some spelt like alias names / variable names (a label is data, never a name to resolve)
        labels = (['I', 'base', 'A', 'J', 'K'])[:n]
    else:
        labels = [src.lab(f'lab_{j}') for j in range(n)]
    twin = cfg.get('twin')
    strict = bool(cfg.get('strict'))
    M = make_class(amap, alias if op == 'evaluate' else None)
    M2 = make_class({}, canon if op == 'evaluate' else None)
    if cfg.get('subclass'):
        # HISTORY (round 13): the parent class is instantiated first, then a subclass that extends ALIASES by a further
        # alias of `alias`; whatever the parent's instances left behind must not hide the subclass's own declaration
        M(list(labels), dtype=dtype, strict=strict)
        M = type('Sub', (M,), {'ALIASES': dict(amap, ZZ=alias)})
        alias = 'ZZ'
    step = cfg.get('step')
    cells = {v: [src.f(f'{v}_{j}') for j in range(n)] for v in VARS}
    val = src.f('val')
    vals = [src.f(f'val_{j}') for j in range(n)]

    def fill(m):
        for v in VARS:
            for j in range(n):
                m.__dict__['_' + v][j] = cells[v][j]

    old = signal.signal(signal.SIGALRM, _alarm)
    signal.alarm(5)
    try:
        if op == 'ctor_kw':
            # constructor keyword through the alias == through the variable
            kwv = [np.float64(1.5 + j) for j in range(n)] if not symbolic else [1.5 + j for j in range(n)]
            r1 = _run(lambda: M(list(labels), dtype=float, strict=strict, **{alias: kwv}))
            r2 = _run(lambda: M2(list(labels), dtype=float, strict=strict, **{canon: kwv}))
            if r1[0] != r2[0]:
                return [f'constructor keyword via alias {alias}: {r1[:2] if r1[0] == "exc" else "model"} vs canonical {r2[:2] if r2[0] == "exc" else "model"}']
            if r1[0] == 'ret':
                m, m2 = r1[1], r2[1]
            else:
                return bad
        else:
            m, m2 = M(list(labels), dtype=dtype, strict=strict), M2(list(labels), dtype=dtype, strict=strict)
            fill(m)
            fill(m2)
    except Watchdog:
        return [f'constructing a model with ALIASES={amap} did not return within 5 s']
    finally:
        signal.alarm(0)
        signal.signal(signal.SIGALRM, old)
    canon2 = (VARS[(VARS.index(canon) + 1) % 3] if twin == 'wrong_var' else canon)

    pos = src.i('pos') if op in ('pos_write', 'pos_read') else None
    if cfg.get('span') == 'str':
        la, lb = cfg.get('la', 'I'), cfg.get('lb', 'A')
    else:
        la, lb = src.lab('la'), src.lab('lb')
    if op == 'attr_read':
        a, b = getattr(m, alias), getattr(m2, canon2)
        if a is not m.__dict__['_' + canon]:
            bad.append(f'reading alias {alias} does not return the storage of {canon}')
        pairs = list(zip(a, b))
        for j, (x, y) in enumerate(pairs):
            if not _eqv(x, y, symbolic):
                bad.append(f'alias read differs at {j}')
    elif op == 'attr_write':
        r1 = _run(lambda: setattr(m, alias, val))
        r2 = _run(lambda: setattr(m2, canon2, val))
    elif op == 'attr_write_seq':
        ref1, ref2 = m.__dict__['_' + canon], m2.__dict__['_' + canon2]      # references taken BEFORE the assignment
        r1 = _run(lambda: setattr(m, alias, list(vals)))
        r2 = _run(lambda: setattr(m2, canon2, list(vals)))
        # whole-series assignment has the same effect on earlier references through the alias as through the variable
        # (the container stores a new array; an array handed out before keeps the old values)
        if (m.__dict__['_' + canon] is ref1) != (m2.__dict__['_' + canon2] is ref2):
            bad.append(f'whole-series assignment via alias {alias}: the stored array is '
                       f"{'the same' if m.__dict__['_' + canon] is ref1 else 'a new'} object, via the variable it is "
                       f"{'the same' if m2.__dict__['_' + canon2] is ref2 else 'a new'} one")
    elif op == 'attr_write_badseq':
        # a sequence of the wrong length: refused through the alias exactly as through the variable
        r1 = _run(lambda: setattr(m, alias, list(vals)[:-1] if n > 1 else list(vals) * 2))
        r2 = _run(lambda: setattr(m2, canon2, list(vals)[:-1] if n > 1 else list(vals) * 2))
    elif op == 'key_write':
        r1 = _run(lambda: m.__setitem__(alias, val))
        r2 = _run(lambda: m2.__setitem__(canon2, val))
    elif op == 'pos_write':
        r1 = _run(lambda: getattr(m, alias).__setitem__(pos, val))
        r2 = _run(lambda: getattr(m2, canon2).__setitem__(pos, val))
    elif op == 'label_write':
        r1 = _run(lambda: m.__setitem__((alias, la), val))
        r2 = _run(lambda: m2.__setitem__((canon2, la), val))
    elif op == 'slice_write':
        r1 = _run(lambda: m.__setitem__((alias, slice(la, lb, step)), val))
        r2 = _run(lambda: m2.__setitem__((canon2, slice(la, lb, step)), val))
    elif op == 'label_read':
        r1 = _run(lambda: m[alias, la])
        r2 = _run(lambda: m2[canon2, la])
        if r1[0] != r2[0] or (r1[0] == 'ret' and not _eqv(r1[1], r2[1], symbolic)) or (r1[0] == 'exc' and r1[1] != r2[1]):
            bad.append(f'label read via alias differs: {r1[0]} vs {r2[0]}')
    elif op == 'slice_read':
        r1 = _run(lambda: list(m[alias, la:lb:step]))
        r2 = _run(lambda: list(m2[canon2, la:lb:step]))
        if r1[0] != r2[0] or (r1[0] == 'ret' and (len(r1[1]) != len(r2[1]) or not all(_eqv(x, y, symbolic) for x, y in zip(r1[1], r2[1])))):
            bad.append('label-slice read via alias differs')
    elif op == 'replace_values':
        r1 = _run(lambda: m.replace_values(**{alias: val}))
        r2 = _run(lambda: m2.replace_values(**{canon2: val}))
    elif op == 'evaluate':
        r1 = _run(lambda: m._evaluate(1 if n > 1 else 0))
        r2 = _run(lambda: m2._evaluate(1 if n > 1 else 0))
    if op in ('attr_write', 'attr_write_seq', 'attr_write_badseq', 'key_write', 'pos_write', 'label_write', 'slice_write', 'replace_values', 'evaluate'):
        if r1[0] != r2[0] or (r1[0] == 'exc' and r1[1] != r2[1]):
            bad.append(f'{op} via alias {alias}: {r1[:2]} vs canonical {r2[:2]}')
    # all cells equal, no additional storage
    for v in VARS:
        a, b = m.__dict__['_' + v], m2.__dict__['_' + v]
        if len(a) != len(b):
            bad.append(f'length of {v} differs')
            continue
        for j in range(len(a)):
            if not _eqv(a[j], b[j], symbolic):
                bad.append(f'after {op} via {alias}: cell {v}[{j}] differs from the canonical twin')
    k1 = {k for k in m.__dict__ if k not in ('aliases', 'preferred_names')}
    k2 = {k for k in m2.__dict__ if k not in ('aliases', 'preferred_names')}
    if k1 != k2:
        bad.append(f'additional storage / attributes on the aliased model: {sorted(k1 ^ k2)}')
    if list(m.index) != list(m2.index) or list(m.names) != list(m2.names):
        bad.append('variable lists differ')
    return bad


def _eqv(x, y, symbolic) -> bool:
    if symbolic:
        xt, yt = _term(x), _term(y)
        return xt.eq(yt) or cur()._check(xt != yt) == 'unsat'
    return lf._same_bits(float(x), float(y))


def explore18(cfg: dict) -> dict:
    t_start = time.time()
    ctx = Ctx(budget_s=300)
    n = cfg['n']
    if cfg['op'] in ('pos_write', 'pos_read'):
        ctx.assume(z3.And(z3.Int('pos') >= -n - 1, z3.Int('pos') <= n), f'-n-1 <= position <= n (n={n})')
    holder: Dict[str, Any] = {}

    def fn():
        src = SymSrc()
        holder['src'] = src
        return scenario(cfg, src, True)

    res: Dict[str, Any] = {'cfg': {k: str(v) if k == 'amap' else v for k, v in cfg.items()}, 'paths': 0, 'mismatch_paths': 0,
                           'candidates': [], 'outcomes': {}, 'witness_checked': 0, 'witness_bad': [], 'spurious_under_uf': 0,
                           'nontrivial_paths': 0}
    for path in ctx.explore(fn):
        res['paths'] += 1
        if path.outcome[0] == 'exc':
            raise RuntimeError(f'harness raised on a path: {path.outcome[1]!r}')
        bad = path.outcome[1]
        res['nontrivial_paths'] += 1
        key = 'ok' if not bad else 'mismatch'
        res['outcomes'][key] = res['outcomes'].get(key, 0) + 1
        if bad:
            res['mismatch_paths'] += 1
            if len(res['candidates']) >= 2:
                continue
            m = path.model()
            src = holder['src']
            inp = {'i': {k: m.eval(z3.Int(k), model_completion=True).as_long() for k in src.ints},
                   'f': {k: 2.5 + 1.25 * i for i, k in enumerate(sorted(src.floats))}}
            cb = scenario(cfg, ConSrc(inp), False)
            res['candidates'].append({'symbolic': bad, 'inputs': inp, 'replay': {'bad': cb, 'impl': None, 'ref': None}})
    res['exhausted'] = ctx.exhausted
    res['smt_samples'] = list(ctx.samples)
    res['stats'] = ctx.stats.as_dict()
    res['assumptions'] = list(ctx.assumptions)
    res['shim_calls'] = {}
    res['wall_s'] = round(time.time() - t_start, 3)
    return res


OPS = ['attr_read', 'attr_write', 'attr_write_seq', 'attr_write_badseq', 'key_write', 'pos_write', 'label_write', 'slice_write', 'label_read', 'slice_read',
       'replace_values', 'evaluate', 'ctor_kw']


def configs(tier: str):
    out = []
    maps = alias_maps(2 if tier == 'quick' else 3)
    for amap in maps:
        names = sorted(amap) or ['A']
        for alias in names:
            if resolve(amap, alias) not in VARS:
                continue
            ops = OPS if (tier == 'thorough' or len(amap) <= 1) else ['attr_write', 'attr_write_seq', 'attr_write_badseq', 'label_write', 'slice_read', 'evaluate', 'ctor_kw', 'attr_read']
            for op in ops:
                for n in ((2 if op in ('slice_write', 'slice_read') else 3,) if tier == 'quick' else (1, 3, 4)):
                    out.append(cfg18(amap=amap, op=op, alias=alias, n=n))
    for n in (1, 2, 3):
        for strict in (False, True):
            out.append(cfg18(amap={'st': 'status', 'it': 'iterations', 'q': 'Q', 'qq': 'q'}, op='meta_alias', alias=None, n=n, strict=strict))
    # PREFERRED_NAMES: every list of up to three distinct names over variables and aliases
    for amap in ({'I': 'A'}, {'I': 'A', 'J': 'A'}, {'I': 'A', 'J': 'I'}, {'I': 'A', 'J': 'A', 'K': 'X'}, {}):
        pool = VARS + sorted(amap)
        for k in (0, 1, 2, 3):
            for pref in itertools.permutations(pool, k):
                if k == 3 and tier == 'quick' and len(amap) > 2:
                    continue
                out.append(cfg18(amap=amap, op='preferred', alias=None, n=3, pref=list(pref)))
    # string labels that coincide with alias / variable names, and strict containers
    for amap in ({'I': 'A'}, {'I': 'A', 'J': 'I'}, {'I': 'B', 'K': 'X'}):
        for alias in sorted(amap):
            for op in ('label_write', 'label_read', 'slice_write', 'slice_read'):
                for la, lb in (('I', 'A'), ('base', 'J'), ('A', 'A'), ('J', 'I'), ('zz', 'A')):
                    out.append(cfg18(amap=amap, op=op, alias=alias, n=4, span='str', la=la, lb=lb))
            for op in ('attr_write', 'attr_write_seq', 'key_write', 'replace_values', 'pos_write', 'evaluate', 'attr_read', 'ctor_kw'):
                out.append(cfg18(amap=amap, op=op, alias=alias, n=3, strict=True))
            # stepped label slices through an alias (round 13), concrete and symbolic labels
            for op in ('slice_write', 'slice_read'):
                for step in (2, 3):
                    for la, lb in (('I', 'K'), ('I', 'J'), ('base', 'K'), ('A', 'A')):
                        out.append(cfg18(amap=amap, op=op, alias=alias, n=5, span='str', la=la, lb=lb, step=step))
                    out.append(cfg18(amap=amap, op=op, alias=alias, n=3, step=step))
            # a subclass that extends ALIASES, built after its parent has been instantiated (round 13)
            for op in ('attr_write', 'attr_write_seq', 'key_write', 'label_write', 'slice_write', 'slice_read', 'label_read', 'replace_values', 'attr_read'):
                out.append(cfg18(amap=amap, op=op, alias=alias, n=3, subclass=True))
    return out


TWINS = [cfg18(amap={'I': 'A'}, op='attr_write', alias='I', twin='wrong_var'),
         cfg18(amap={'I': 'J', 'J': 'B'}, op='label_write', alias='I', twin='wrong_var'),
         cfg18(amap={'I': 'A'}, op='preferred', alias=None, pref=['I', 'A'], twin='never_ambiguous')]


def finding_key(cfg, cand) -> str:
    bad = cand['replay']['bad']
    if any('did not return' in b for b in bad):
        return 'self-map-hangs-constructor'
    return f"amap={cfg['amap']},op={cfg['op']},alias={cfg['alias']}{',pref=' + str(cfg['pref']) if cfg.get('pref') is not None else ''}:{bad[0][:80] if bad else '?'}"


def main() -> int:
    tier = vlib.tier()
    rep = vlib.Report('C18', 'model_checking', tier)
    run_family(
        rep, configs(tier), TWINS,
        functions=['fsic.extensions.common.AliasMixin.__init__', '_resolve_alias', '__getattr__', '__setattr__', '__getitem__', '__setitem__',
                   'VectorContainer label access underneath'],
        bounds={'alias_maps': f"all acyclic maps of up to {2 if tier == 'quick' else 3} alias names onto 3 variables / other aliases (many-to-one, chains, self-maps)",
                'span_length': '2..3 (thorough 1, 3, 4) with symbolic integer labels', 'operands': 'value(s): any Float64; position: symbolic -n-1..n; labels / slice bounds: any integer',
                'operations': OPS},
        outside=['to_dataframe(use_aliases=...) (pandas): the renaming of exported columns; the rejection of ambiguous PREFERRED_NAMES at construction IS checked', 'cyclic alias maps',
                 'operation sequences longer than one step (each operation starts from an arbitrary symbolic state, so a step result composes)'],
        key_fn=finding_key, explore=explore18,
    )
    rep.coverage['symbolic_inputs'] = ['written value(s)', 'position', 'label', 'label-slice bounds', 'every cell', 'span labels']
    rep.coverage['stubs'] = {'series': 'object-dtype ndarrays of symbolic cells; real NumPy'}
    return rep.finish()


if __name__ == '__main__':
    sys.exit(main())
