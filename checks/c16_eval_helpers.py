"""C16 -- eval() and the time-series helpers compute what their definitions say.

Helpers (fsic.functions.shift/lag/lead/diff/dlog, real bodies): the input is a
vector of n symbolic cells, the shifts p, d are UNBOUNDED symbolic integers,
the fill value is symbolic; `fsic.functions.np` is replaced by the symx
stand-in (np.roll as an ite over p mod n; slice assignment with symbolic
bounds under Python's clamping rules).  z3 decides, per position i,
lag(x,p)[i] == (x[i-p] if 0 <= i-p < n else fill) etc.

eval: expressions from a small grammar (variables, helpers, + - *, positional
index / slice, backticked label index / slice, caller locals) over object
arrays of symbolic cells and symbolic span labels; oracle: the same expression
computed directly from the reference label map.
"""
from __future__ import annotations

import contextlib
import copy
import sys
import time
import warnings
from typing import Any, Dict, List, Optional

import numpy as np
import z3

import fsic
import fsic.functions as ffunc
import vlib
from checks import loopfam as lf
from checks.loopdriver import run_family
from fsic.core.containers import VectorContainer
from symx.core import Ctx, cur
from symx.npshim import NpShim
from symx.src import ConSrc, SymSrc, witness
from symx.values import SArr, SFloat, SInt, SLabel, UF_LOG, UF_SUB, fpval

_FSHIM = NpShim()


@contextlib.contextmanager
def shimmed():
    old = ffunc.np
    ffunc.np = _FSHIM
    try:
        yield
    finally:
        ffunc.np = old


def cfg16(**kw):
    c = dict(part='helper', fn='lag', n=3, span='list_sym', expr=None, twin=None, fill='sym')
    c.update(kw)
    return c


def _term(x):
    if isinstance(x, SFloat):
        return x.t
    return fpval(float(x))


def _run(fn):
    try:
        with warnings.catch_warnings():
            warnings.simplefilter('ignore')
            return ('ret', fn())
    except Exception as e:  # noqa: BLE001
        return ('exc', type(e).__name__, str(e)[:200])


# -- helpers -------------------------------------------------------------------------------------------------
def helper_symbolic(cfg) -> Dict[str, Any]:
    """One exploration of a helper over symbolic p/d."""
    n, fn = cfg['n'], cfg['fn']
    twin = cfg.get('twin')
    ctx = Ctx(budget_s=300)
    pz = z3.Int('p')
    if fn in ('diff', 'dlog'):
        ctx.assume(pz >= 0, 'd >= 0 (the statement defines diff for d >= 0 only)')
    cells = [z3.FP(f'x_{i}', z3.Float64()) for i in range(n)]
    fillz = z3.FP('fill', z3.Float64())
    bad_all: List[Any] = []

    def sel(k_term, default):
        """x[k] for a symbolic index k (ite chain); `default` outside 0..n-1."""
        t = default
        for j in range(n - 1, -1, -1):
            t = z3.If(k_term == j, cells[j], t)
        return t

    def fn_run():
        x = SArr([SFloat(c) for c in cells])
        p = SInt(pz)
        fill = SFloat(fillz)
        with shimmed():
            if fn == 'lag':
                r = _run(lambda: ffunc.lag(x, p, fill_value=fill))
            elif fn == 'lead':
                r = _run(lambda: ffunc.lead(x, p, fill_value=fill))
            elif fn == 'shift':
                r = _run(lambda: ffunc.shift(x, p, fill_value=fill))
            elif fn == 'diff':
                r = _run(lambda: ffunc.diff(x, p, fill_value=fill))
            else:
                r = _run(lambda: ffunc.dlog(x, p, fill_value=fill))
        bad = []
        terms = []
        c = cur()
        if r[0] != 'ret':
            return {'bad': [f'{fn} raised {r[1]}: {r[2]}'], 'terms': []}
        res = r[1]
        if not isinstance(res, SArr) or len(res) != n:
            return {'bad': [f'{fn}: result is not a vector of the input length'], 'terms': []}
        for i in range(n):
            if fn in ('lag', 'shift'):
                k = z3.IntVal(i) - pz
                want = z3.If(z3.And(k >= 0, k < n), sel(k, fillz), fillz)
            elif fn == 'lead':
                k = z3.IntVal(i) + pz
                want = z3.If(z3.And(k >= 0, k < n), sel(k, fillz), fillz)
            elif fn == 'diff':
                k = z3.IntVal(i) - pz
                # d == 0 returns x itself (x[i] - x[i] is not what the definition's d=0 case computes: the statement allows the input)
                want = z3.If(pz == 0, cells[i], z3.If(z3.And(k >= 0, k < n), UF_SUB(cells[i], sel(k, fillz)), fillz))
            else:
                k = z3.IntVal(i) - pz
                lg = lambda t: UF_LOG(t)  # noqa: E731
                selog = fillz
                for j in range(n - 1, -1, -1):
                    selog = z3.If(k == j, lg(cells[j]), selog)
                want = z3.If(pz == 0, lg(cells[i]), z3.If(z3.And(k >= 0, k < n), UF_SUB(lg(cells[i]), selog), fillz))
            if twin == 'off_by_one' and i == n - 1:
                want = z3.If(pz == 1, fillz, want)
            got = res.items[i].t
            if c._check(got != want) == 'sat':
                bad.append(f'{fn}(x, p)[{i}] differs from its definition')
                terms.append(got != want)
        # input never modified
        for i in range(n):
            if not x.items[i].t.eq(cells[i]) and c._check(x.items[i].t != cells[i]) == 'sat':
                bad.append(f'{fn} modified its input at position {i}')
                terms.append(x.items[i].t != cells[i])
        return {'bad': bad, 'terms': terms}

    res: Dict[str, Any] = {'cfg': dict(cfg), 'paths': 0, 'mismatch_paths': 0, 'candidates': [], 'outcomes': {},
                           'witness_checked': 0, 'witness_bad': [], 'spurious_under_uf': 0, 'nontrivial_paths': 0}
    for path in ctx.explore(fn_run):
        res['paths'] += 1
        if path.outcome[0] == 'exc':
            raise RuntimeError(f'harness raised on a path: {path.outcome[1]!r}')
        r = path.outcome[1]
        res['nontrivial_paths'] += 1
        key = 'ok' if not r['bad'] else 'mismatch'
        res['outcomes'][key] = res['outcomes'].get(key, 0) + 1
        if r['bad']:
            res['mismatch_paths'] += 1
            if len(res['candidates']) >= 3:
                continue
            m = path.model(*([z3.Or(*r['terms'])] if r['terms'] else []))
            if m is None:
                m = path.model()
            p = m.eval(pz, model_completion=True).as_long()
            cb = helper_concrete(cfg, p)
            res['candidates'].append({'symbolic': r['bad'], 'inputs': {'p': p, 'n': n}, 'replay': {'bad': cb, 'impl': None, 'ref': None}})
    res['exhausted'] = ctx.exhausted
    res['smt_samples'] = list(ctx.samples)
    res['stats'] = ctx.stats.as_dict()
    res['assumptions'] = list(ctx.assumptions)
    res['shim_calls'] = dict(_FSHIM.calls)
    return res


def helper_concrete(cfg, p: int) -> List[str]:
    """The definition on real float64 arrays with real NumPy: on ordinary positive data and on data with the values where
    the functions involved are special (exact zeros of either sign, negatives, infinities, NaN, denormals)."""
    n = cfg['n']
    datasets = [[1.5 + 0.75 * i * i for i in range(n)]]
    special = [0.0, 2.0, -0.0, 3.5, -1.0, float('inf'), 5e-324, float('nan'), 1e308, 0.25, 0.0]
    for shift in range(3):
        datasets.append([special[(i + 4 * shift) % len(special)] for i in range(n)])
    for data in datasets:
        with np.errstate(all='ignore'), warnings.catch_warnings():
            warnings.simplefilter('ignore')
            bad = _helper_concrete(cfg, p, data)
        if bad:
            return bad
    return []


def _same_value(a, b) -> bool:
    a, b = float(a), float(b)
    if a != a or b != b:
        return a != a and b != b
    return a == b


def _helper_concrete(cfg, p: int, data) -> List[str]:
    n, fn = cfg['n'], cfg['fn']
    x = np.array(data, dtype=float)
    x0 = x.copy()
    fill = -99.0
    bad = []
    f = {'lag': ffunc.lag, 'lead': ffunc.lead, 'shift': ffunc.shift, 'diff': ffunc.diff, 'dlog': ffunc.dlog}[fn]
    r = _run(lambda: f(x, p, fill_value=fill))
    if r[0] != 'ret':
        return [f'{fn}(x, {p}) raised {r[1]}']
    res = r[1]
    if len(res) != n:
        return [f'{fn}(x, {p}) has length {len(res)} != {n}']
    src = np.log(x0) if fn == 'dlog' else x0
    for i in range(n):
        if fn in ('lag', 'shift'):
            k = i - p
            want = src[k] if 0 <= k < n else fill
        elif fn == 'lead':
            k = i + p
            want = src[k] if 0 <= k < n else fill
        else:
            k = i - p
            want = src[i] if p == 0 else (src[i] - src[k] if 0 <= k < n else fill)
        if cfg.get('twin') == 'off_by_one' and i == n - 1 and p == 1:
            want = fill
        if not _same_value(res[i], want):
            bad.append(f'{fn}(x, {p})[{i}] = {res[i]!r}, definition gives {want!r} (x = {list(x0)})')
    if not np.array_equal(x, x0, equal_nan=True):
        bad.append(f'{fn} modified its input')
    return bad


# -- eval ---------------------------------------------------------------------------------------------------
# Each expression: (text, reference function of (cells dict, pos function, n) -> list/scalar of cells or terms)
def _zipb(a, b):
    """NumPy broadcasting of two 1-D operands (length-1 stretches, otherwise lengths must agree)."""
    if len(a) != len(b):
        if len(a) == 1:
            a = list(a) * len(b)
        elif len(b) == 1:
            b = list(b) * len(a)
        else:
            raise ValueError('operands could not be broadcast together')
    return zip(a, b)


def _exprs(n: int, labels_txt: List[str]):
    E = []
    a, b = labels_txt[0], labels_txt[min(1, n - 1)]
    last = labels_txt[-1]
    E.append(('X', lambda C, pos: list(C['X'])))
    E.append(('X + W', lambda C, pos: [x + w for x, w in zip(C['X'], C['W'])]))
    E.append(('X[0] + W[-1]', lambda C, pos: C['X'][0] + C['W'][-1]))
    E.append((f'X[`{a}`]', lambda C, pos: C['X'][pos(a)]))
    E.append((f'X[`{a}`] * W[`{last}`]', lambda C, pos: C['X'][pos(a)] * C['W'][pos(last)]))
    E.append((f'X[`{a}`:`{b}`]', lambda C, pos: C['X'][pos(a):pos(b) + 1]))
    E.append((f'X[`{a}`:`{last}`:2]', lambda C, pos: C['X'][pos(a):pos(last) + 1:2]))
    E.append((f'X[:`{b}`]', lambda C, pos: C['X'][:pos(b) + 1]))
    E.append((f'X[`{b}`:]', lambda C, pos: C['X'][pos(b):]))
    # backticked labels index whatever stands before the bracket: a parenthesised expression, the result of a helper
    E.append((f'(X + W)[`{a}`]', lambda C, pos: C['X'][pos(a)] + C['W'][pos(a)]))
    E.append((f'(X)[`{a}`:`{last}`]', lambda C, pos: C['X'][pos(a):pos(last) + 1]))
    E.append((f'lead(X, 0)[`{b}`:]', lambda C, pos: C['X'][pos(b):]))
    if n >= 3:
        # positional slices keep their ordinary meaning wherever they appear
        E.append(('X[1:3]', lambda C, pos: C['X'][1:3]))
        E.append((f'X[0:2] + W[`{a}`:`{b}`]' if n >= 2 else 'X', lambda C, pos: [x + w for x, w in _zipb(C['X'][0:2], C['W'][pos(a):pos(b) + 1])]))
        E.append((f'X[1:3] * W[`{a}`]', lambda C, pos: [x * C['W'][pos(a)] for x in C['X'][1:3]]))
        E.append((f'W[`{a}`] - X[:2]', lambda C, pos: [C['W'][pos(a)] - x for x in C['X'][:2]]))
        E.append((f'X[-2:] + W[`{last}`]', lambda C, pos: [x + C['W'][pos(last)] for x in C['X'][-2:]]))
        E.append((f'X[2] + W[`{a}`]', lambda C, pos: C['X'][2] + C['W'][pos(a)]))
        # mixed slices (round 13): the backticked end is a label (inclusive as a stop), the plain end stays positional
        E.append((f'X[`{a}`:2]', lambda C, pos: C['X'][pos(a):2]))
        E.append((f'X[1:`{last}`]', lambda C, pos: C['X'][1:pos(last) + 1]))
        E.append((f'X[`{a}`:-1]', lambda C, pos: C['X'][pos(a):-1]))
    return E


def typed_eval_scenario(cfg) -> List[str]:
    """eval() binds every name to ITS OWN series: dtypes are not unified across variables, and a model's status and
    iterations are names like any other (concrete assertions)."""
    import fsic
    n = cfg['n']
    bad: List[str] = []
    span = list(range(2000, 2000 + n))
    if cfg['span'] == 'model':
        class M(fsic.BaseModel):
            ENDOGENOUS = ['X']
            EXOGENOUS = ['W']
            NAMES = ENDOGENOUS + EXOGENOUS
            CHECK = ENDOGENOUS
        c = M(span, X=1.5, W=2.0)
        c.iterations[:] = np.arange(n)
    else:
        c = VectorContainer(span)
        c.add_variable('X', [0.5 + j for j in range(n)], dtype=float)
        c.add_variable('W', 2.0, dtype=float)
    c.add_variable('K', [2 ** 53 + 1 + j for j in range(n)], dtype=int)
    c.add_variable('B', [j % 2 == 0 for j in range(n)], dtype=bool)
    c.add_variable('S', ['s%d' % j for j in range(n)], dtype='<U4')
    for odd in ('size', 'index', 'values', 'copy'):      # legal names that are also attributes of the object
        if odd not in c.index:
            c.add_variable(odd, [10.5 + j for j in range(n)], dtype=float)
    for name in list(c.index):
        r = _run(lambda: c.eval(name))
        series = c[name]
        if r[0] != 'ret' or not isinstance(r[1], np.ndarray) or r[1].dtype != series.dtype or not np.array_equal(r[1], series):
            bad.append(f'eval({name!r}) is not the series {name} ({series.dtype}): {r[1].dtype if r[0] == "ret" and hasattr(r[1], "dtype") else r[:2]}')
    checks = [('K + 1', lambda: c['K'] + 1), ('K & 1', lambda: c['K'] & 1), ('X[B]', lambda: c['X'][c['B']]), ('X * W + K', lambda: c['X'] * c['W'] + c['K']),
              ('~B', lambda: ~c['B'])]
    if cfg['span'] == 'model':
        checks += [('iterations + 1', lambda: c['iterations'] + 1), ("status == '-'", lambda: c['status'] == '-')]
    # undefined names are reported as AttributeError naming them -- also when several variables are equally close
    c.add_variable('c', 1.0, dtype=float)
    c.add_variable('C', 2.0, dtype=float)
    for undefined in ('cc', 'c_', 'Cc', 'zzz'):
        r = _run(lambda: c.eval(f'X + {undefined}'))
        if r[0] != 'exc' or r[1] != 'AttributeError' or undefined not in r[2]:
            bad.append(f'undefined name {undefined!r}: expected AttributeError naming it, got {r}')
    for text, want in checks:
        r = _run(lambda: c.eval(text))
        w = want()
        if r[0] != 'ret' or not isinstance(r[1], np.ndarray) or r[1].dtype != w.dtype or not np.array_equal(r[1], w):
            bad.append(f'eval({text!r}) differs from the expression on the series themselves: {r[:2] if r[0] == "exc" else r[1]!r} vs {w!r}')
    return bad


def eval_scenario(cfg, src, symbolic: bool) -> List[str]:
    if cfg.get('typed'):
        return typed_eval_scenario(cfg)
    n = cfg['n']
    kind = cfg['span']
    if kind == 'list_sym':
        labels = [src.lab(f'lab_{j}') for j in range(n)]
        span: Any = list(labels)
        txt = [str(2000 + j) for j in range(n)]       # labels named in the expressions (concrete integers)
    elif kind == 'list_sym_neg':    # the labels named in the expressions are negative integers / zero
        labels = [src.lab(f'lab_{j}') for j in range(n)]
        span = list(labels)
        txt = [str(-2 + j) for j in range(n)]
    elif kind in ('range_neg', 'nd_neg'):   # integer labels straddling zero (`-2`, `-1`, `0`, ...)
        labels = list(range(-2, -2 + n))
        span = range(-2, -2 + n) if kind == 'range_neg' else np.arange(-2, -2 + n)
        txt = [str(x) for x in labels]
    elif kind == 'range':
        labels = list(range(2000, 2000 + n))
        span = range(2000, 2000 + n)
        txt = [str(x) for x in labels]
    elif kind == 'nd_int':      # NumPy-array span: goes through the fallback locator
        labels = list(range(2000, 2000 + n))
        span = np.arange(2000, 2000 + n)
        txt = [str(x) for x in labels]
    elif kind == 'nd_str':
        labels = [f'p{j}' for j in range(n)]
        span = np.array(labels)
        txt = list(labels)
    else:
        labels = [f'p{j}' for j in range(n)]
        span = list(labels)
        txt = list(labels)
    stage = cfg.get('stage')
    c = VectorContainer(span[:n - 1] if stage == 'grown' else span)
    dtype = object if symbolic else float
    cells = {}
    for v in ('X', 'W'):
        c.add_variable(v, 0.0, dtype=dtype)
        cells[v] = [src.f(f'{v}_{j}') for j in range(n)]
    if stage:
        # HISTORY: expressions evaluated before (on other data / a shorter span), then the object reindexed or copied
        # and every series replaced by whole-series assignment: anything eval remembered is stale
        with warnings.catch_warnings():
            warnings.simplefilter('ignore')
            for text in ('X', 'X + W', 'X[0] + W[-1]', 'lag(X)', 'X[:]'):
                _run(lambda: c.eval(text))
        if stage == 'grown':
            c = c.reindex(span)
        elif stage == 'copy':
            c = c.copy()
        for v in cells:
            setattr(c, v, list(cells[v]))
    else:
        for v in cells:
            for j in range(n):
                c.__dict__['_' + v][j] = cells[v][j]
    before_builtins = dict(ffunc.builtins)
    bad: List[str] = []
    twin = cfg.get('twin')

    def pos(label_txt: str) -> int:
        """Reference label map: first position whose label equals the label written in the expression."""
        want: Any = label_txt
        for j, lab in enumerate(labels):
            if isinstance(lab, str):
                if lab == want:
                    return j
            elif bool(lab == int(want)):
                return j
        raise KeyError(label_txt)

    for text, ref in _exprs(n, txt):
        if cfg['expr'] is not None and text != cfg['expr']:
            continue
        got = _run(lambda: c.eval(text))
        try:
            want = ('ret', ref(cells, pos))
        except KeyError:
            want = ('exc', 'KeyError', '')
        except ValueError:
            want = ('exc', 'ValueError', '')
        if twin == 'shift_label' and want[0] == 'ret' and '`' in text and isinstance(want[1], list) and len(want[1]) > 1:
            want = ('ret', want[1][1:] + want[1][:1])
        if got[0] != want[0]:
            bad.append(f'eval({text!r}): {got[:2] if got[0] == "exc" else "value"} but expected {want[:2] if want[0] == "exc" else "value"}')
            continue
        if got[0] == 'exc':
            if got[1] != want[1]:
                bad.append(f'eval({text!r}): raised {got[1]}, expected {want[1]}')
            continue
        g, w = got[1], want[1]
        gl = list(g) if isinstance(g, (np.ndarray, list)) else [g]
        wl = list(w) if isinstance(w, list) else [w]
        if len(gl) != len(wl):
            bad.append(f'eval({text!r}): {len(gl)} element(s), expected {len(wl)}')
            continue
        for i, (x, y) in enumerate(zip(gl, wl)):
            if symbolic:
                xt, yt = _term(x), _term(y)
                if not xt.eq(yt) and cur()._check(xt != yt) == 'sat':
                    bad.append(f'eval({text!r}): element {i} is not what the expression denotes')
            elif not lf._same_bits(float(x), float(y)):
                bad.append(f'eval({text!r})[{i}] = {float(x)!r}, expected {float(y)!r}')
    # helpers inside eval, precedence of locals over variables over helpers, undefined names
    if cfg['expr'] is None:
        r = _run(lambda: c.eval('lag(X)'))
        if r[0] != 'ret' or len(r[1]) != n:
            bad.append(f'eval(lag(X)) failed: {r[:2]}')
        else:
            for i in range(1, n):
                x, y = r[1][i], cells['X'][i - 1]
                ok = (_term(x).eq(_term(y)) or cur()._check(_term(x) != _term(y)) == 'unsat') if symbolic else lf._same_bits(float(x), float(y))
                if not ok:
                    bad.append('eval(lag(X)) is not X shifted by one period')
        r = _run(lambda: c.eval('X', locals={'X': 'LOCAL'}))
        if r != ('ret', 'LOCAL'):
            bad.append('caller-supplied locals do not override variables')
        c.add_variable('lag', 0.0, dtype=dtype)
        r = _run(lambda: c.eval('lag'))
        if r[0] != 'ret' or not isinstance(r[1], np.ndarray):
            bad.append('a variable does not override the built-in helper of the same name')
        r = _run(lambda: c.eval('X + Qundefined'))
        if r[0] != 'exc' or r[1] != 'AttributeError' or 'Qundefined' not in r[2]:
            bad.append(f'undefined name: expected AttributeError naming it, got {r}')
    for v in ('X', 'W'):
        for j in range(n):
            x, y = c.__dict__['_' + v][j], cells[v][j]
            same = _term(x).eq(_term(y)) if symbolic else lf._same_bits(float(x), float(y))
            if not same:
                bad.append(f'eval altered the container: {v}[{j}]')
    if dict(ffunc.builtins) != before_builtins:
        bad.append('eval altered the package-level helper table')
    return bad


def explore16(cfg: dict) -> dict:
    t_start = time.time()
    if cfg['part'] == 'helper':
        r = helper_symbolic(cfg)
        r['wall_s'] = round(time.time() - t_start, 3)
        return r
    ctx = Ctx(budget_s=300)
    holder: Dict[str, Any] = {}

    def fn():
        src = SymSrc()
        holder['src'] = src
        return eval_scenario(cfg, src, True)

    res: Dict[str, Any] = {'cfg': dict(cfg), 'paths': 0, 'mismatch_paths': 0, 'candidates': [], 'outcomes': {},
                           'witness_checked': 0, 'witness_bad': [], 'spurious_under_uf': 0, 'nontrivial_paths': 0}
    for path in ctx.explore(fn):
        res['paths'] += 1
        if path.outcome[0] == 'exc':
            raise RuntimeError(f'harness raised on a path: {path.outcome[1]!r}')
        bad = path.outcome[1]
        res['nontrivial_paths'] += 1
        key = 'ok' if not bad else 'mismatch'
        res['outcomes'][key] = res['outcomes'].get(key, 0) + 1
        if bad:
            res['mismatch_paths'] += 1
            if len(res['candidates']) >= 3:
                continue
            m = path.model()
            src = holder['src']
            inp = {'i': {k: m.eval(z3.Int(k), model_completion=True).as_long() for k in src.ints},
                   'f': {k: 3.25 + 1.5 * i for i, k in enumerate(sorted(src.floats))}}
            cb = eval_scenario(cfg, ConSrc(inp), False)
            res['candidates'].append({'symbolic': bad, 'inputs': inp, 'replay': {'bad': cb, 'impl': None, 'ref': None}})
    res['exhausted'] = ctx.exhausted
    res['smt_samples'] = list(ctx.samples)
    res['stats'] = ctx.stats.as_dict()
    res['assumptions'] = list(ctx.assumptions)
    res['shim_calls'] = {}
    res['wall_s'] = round(time.time() - t_start, 3)
    return res


def configs(tier: str):
    out = []
    for fn in ('lag', 'lead', 'shift', 'diff', 'dlog'):
        for n in range(0, (6 if tier == 'quick' else 11)):
            out.append(cfg16(part='helper', fn=fn, n=n))
    for span in ('list_sym', 'range', 'list_str', 'nd_int', 'nd_str', 'range_neg', 'nd_neg', 'list_sym_neg'):
        for n in (1, 2, 3, 4) if tier == 'quick' else (1, 2, 3, 4, 5, 6, 7):
            if span == 'list_sym_neg' and n > 3 and tier == 'quick':
                continue
            out.append(cfg16(part='eval', span=span, n=n))
    for kind in ('container', 'model'):
        for n in (1, 2, 3):
            out.append(cfg16(part='eval', span=kind, n=n, typed=True))
    for stage in ('rebind', 'copy', 'grown'):
        for span in ('list_sym', 'range', 'list_str', 'nd_int', 'range_neg'):
            for n in (1, 2, 3) if tier == 'quick' else (1, 2, 3, 4, 5):
                if stage == 'grown' and span == 'list_sym' and n > 3:
                    continue
                out.append(cfg16(part='eval', span=span, n=n, stage=stage))
    return out


TWINS = [cfg16(part='helper', fn='lag', n=3, twin='off_by_one'), cfg16(part='eval', span='range', n=3, twin='shift_label')]


def finding_key(cfg, cand) -> str:
    bad = cand['replay']['bad']
    if cfg['part'] == 'eval' and any('X[1:3]' in b or 'X[0:2]' in b or 'X[:2]' in b or 'X[-2:]' in b for b in bad):
        return 'positional-slice-rewritten-next-to-backtick'
    return f"{cfg['part']},{cfg['fn'] if cfg['part'] == 'helper' else cfg['span']},n={cfg['n']}{',history=' + cfg['stage'] if cfg.get('stage') else ''}:{bad[0][:80] if bad else '?'}"


def main() -> int:
    tier = vlib.tier()
    rep = vlib.Report('C16', 'model_checking', tier)
    run_family(
        rep, configs(tier), TWINS,
        functions=['fsic.functions.shift', 'lag', 'lead', 'diff', 'dlog', 'fsic.core.containers.VectorContainer.eval',
                   'VectorContainer._resolve_expression_indexes'],
        bounds={'helpers': f"vector length 0..{5 if tier == 'quick' else 10}; shifts p, d: ALL integers (d >= 0 for diff/dlog); fill: any Float64",
                'eval': f"span length 1..{4 if tier == 'quick' else 7}; span labels symbolic integers (list span) / range / str; 15 expression shapes"},
        outside=['pandas spans', 'diff/dlog with d < 0 (the statement defines d >= 0)', 'dlog on non-positive data (log is uninterpreted)',
                 'expressions outside the catalogue', 'globals= / builtins= / warnings_ arguments of eval'],
        key_fn=finding_key, explore=explore16,
    )
    rep.coverage['stubs'] = {'fsic.functions.np': 'symx NpShim: roll as ite over p mod n; SArr slice assignment with symbolic bounds (Python clamping rules)',
                             'eval series': 'object-dtype ndarrays of symbolic cells, real NumPy'}
    rep.coverage['symbolic_inputs'] = ['shift p / difference d (unbounded)', 'fill value', 'every cell', 'span labels (eval)']
    return rep.finish()


if __name__ == '__main__':
    sys.exit(main())
