"""./vcheck replay <file> -- re-run a stored counterexample against /repo's current
working tree, concretely (real NumPy, no stand-ins, no solver).

Exit 1 and the list of discrepancies if the violation reproduces, exit 0 if the
current tree no longer shows it, exit 2 if the file cannot be replayed.
"""
from __future__ import annotations

import base64
import json
import pickle
import sys


def _loads_program(rep: dict):
    blob = rep.get('program_pickle')
    return pickle.loads(base64.b64decode(blob)) if blob else None


def main() -> int:
    if len(sys.argv) < 2:
        print('usage: vcheck replay <file>', file=sys.stderr)
        return 2
    d = json.load(open(sys.argv[1]))
    prop, rep = d['property'], d['replay']
    print(f"property {prop}: {d.get('key')}\n  recorded: {d.get('what')}\n  recorded at repo HEAD {d.get('repo_head')}")
    bad = None
    try:
        if rep.get('kind') == 'fsolve':
            from checks.fsolve import explore_fany
            r = explore_fany(rep['cfg'], replay_inputs=rep['inputs'])
            print(f"  Fortran engine (machine code): {r['impl']}\n  Python engine: {r['python_engine']}")
            bad = r['bad']
        elif rep.get('kind') == 'loopfam' and 'cfg' in rep:
            cfg, inp = rep['cfg'], rep['inputs']
            if prop in ('C02', 'C06', 'C04') and cfg.get('part') != 'natural' and 'N' in cfg:
                from checks.loopfam import replay_concrete
                bad = replay_concrete(cfg, inp)['bad']
            elif prop == 'C05':
                from checks.c05_solve_range import replay5
                bad = replay5(cfg, inp)['bad']
            elif prop == 'C08':
                from checks import c08_linker as m
                from symx.src import ConSrc
                if cfg['mode'] == 'construct':
                    bad = m._replay_construct(cfg, inp, cfg.get('lens') or [cfg['L']] * cfg['n_sub'])['bad']
                else:
                    scen = m._wrapper_scenario if cfg['mode'] == 'wrapper' else m._scenario
                    bad = scen(cfg, ConSrc(inp), float, False)[0]
            elif prop == 'C09':
                from checks.c09_container_shapes import scenario
                cfg['operand'] = tuple(cfg['operand']) if cfg.get('operand') else None
                cfg['kinds'] = tuple(cfg['kinds'])
                bad = scenario(cfg, False, inp)
            elif prop == 'C10':
                from checks.c10_label_access import scenario
                from symx.src import ConSrc
                bad = scenario(cfg, ConSrc(inp), False)
            elif prop == 'C12':
                from checks.c12_reindex import scenario
                from symx.src import ConSrc
                if isinstance(cfg.get('fills'), str):
                    import ast
                    cfg['fills'] = ast.literal_eval(cfg['fills'])
                bad = scenario(cfg, ConSrc(inp))
            elif prop == 'C16':
                from checks import c16_eval_helpers as m
                from symx.src import ConSrc
                bad = m.helper_concrete(cfg, inp['p']) if cfg['part'] == 'helper' else m.eval_scenario(cfg, ConSrc(inp), False)
            elif prop == 'C17':
                from checks.c17_tracer import replay_trace_concrete
                bad = replay_trace_concrete(cfg, inp)['bad']
            elif prop == 'C18':
                from checks.c18_alias import scenario
                from symx.src import ConSrc
                import ast
                if isinstance(cfg.get('amap'), str):
                    cfg['amap'] = ast.literal_eval(cfg['amap'])
                bad = scenario(cfg, ConSrc(inp), False)
        elif 'hand_order' in rep:
            from checks.c15_build_variants import hand_order_work
            r = hand_order_work((tuple(rep['hand_order']), rep['variant']))
            bad = [b['what'] for b in r.get('bad', []) if b.get('replayed')] if 'harness_error' not in r else None
        elif 'text' in rep:
            prog = _loads_program(rep)
            import fsic
            text = rep['text']
            print('  script:\n    ' + text.strip().replace('\n', '\n    '))
            if 'witness' in rep and prog is not None and prop in ('C01', 'C04', 'C14', 'C15', 'C20'):
                from gram.pipeline import replay_values
                symbols = fsic.parse_model(text)
                Model = fsic.build_model(symbols)
                bad = replay_values(prog, Model, rep['witness'], symbols=symbols)
            elif prop == 'C07' and 'witness' in rep:
                from checks.c07_fortran import replay_native
                bad = replay_native(text, rep['witness'])['bad']
            elif prop == 'C07':
                import fir
                import fsic.fortran as ff
                cd = fir.compile_dump(ff.build_fortran_definition(fsic.parse_model(text)))
                bad = [] if cd['compiled'] else ['generated Fortran does not compile: ' + cd['stderr'][-300:]]
            else:
                try:
                    fsic.build_model(fsic.parse_model(text))
                    outcome = 'accepted'
                except Exception as e:  # noqa: BLE001
                    outcome = f'{type(e).__name__}: {e}'
                print(f'  parse + build now: {outcome}')
                print('  (this record carries no executable witness; compare the outcome with the recorded description)')
                return 2
    except Exception as e:  # noqa: BLE001
        print(f'cannot replay: {type(e).__name__}: {e}', file=sys.stderr)
        return 2
    if bad is None:
        print('  this record has no replayable payload for the generic replayer; stored details:')
        print(json.dumps(rep, indent=1, default=str)[:3000])
        return 2
    if bad:
        print('REPRODUCED:')
        for b in bad[:10]:
            print('  ' + str(b)[:400])
        return 1
    print('not reproduced on the current tree')
    return 0


if __name__ == '__main__':
    sys.exit(main())
