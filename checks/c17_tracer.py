"""C17 -- tracing never changes a solution and records it faithfully.

Twin exploration on the loop-family harness: the same symbolic script is run
on (a) a TracerMixin model with trace=..., (b) the plain model, (c) the
TracerMixin model with tracing off.  Per joint path: identical observables and
z3-equal cells; the trace of (a) holds the labels start, before, 0, 1..k[, end]
with snapshot j equal to the symbolic values after pass j; (c) writes no trace.
"""
from __future__ import annotations

import sys
import time
from typing import Any, Dict

import z3

import vlib
from checks import loopfam as lf
from checks.loopdriver import run_family
from symx.core import Ctx, cur
from symx.values import SFloat, fpval

OBS = ('kind', 'ret', 'exc', 'cause', 'status', 'iters', 'n_eval', 'pre_calls', 'post_calls', 'status_all', 'iters_all')


MAX_CANDIDATES = 3  # IEEE confirmations + replays per configuration (further mismatching paths are only counted)


def _expected_labels(events) -> list:
    lab = []
    for k, it in events:
        if k == 'call':
            lab.append('start')
        elif k == 'before':
            lab.append('before')
        elif k == 'before_done':
            lab.append(0)
        elif k == 'eval_done':
            lab.append(it)
        elif k == 'after_done':
            lab.append('end')
    return lab


def _pass_of_column(events) -> list:
    """For each expected trace column: the cumulative pass number whose snapshot it must hold (None for start/before/0/end)."""
    out, p = [], 0
    for k, it in events:
        if k == 'call':
            out.append(None)
        elif k in ('before', 'before_done', 'after_done'):
            out.append(None)
        elif k == 'eval':
            p += 1            # the scripted model counts a pass when it starts (a faulted pass still consumes its script entry)
        elif k == 'eval_done':
            out.append(p)
    return out


def _term(x):
    return x.t if isinstance(x, SFloat) else fpval(float(x))


def explore_trace_config(cfg: dict) -> dict:
    t_start = time.time()
    ctx = Ctx(budget_s=600)
    names, cells0, script, tol, min_iter, offset = lf._symbolic_inputs(cfg)
    lf._assume_domain(ctx, cfg, names, cells0, script, tol, min_iter, offset)
    L, t = cfg['L'], cfg['t']
    tc = t if t >= 0 else t + L
    trace_arg = cfg['tracer']
    twin = cfg.get('twin')
    cfg_plain = dict(cfg, tracer=None)
    cfg_off = dict(cfg, tracer=False)

    def run(c):
        names_, cells, s, tol_, min_iter_, offset_ = lf._symbolic_inputs(c)
        m = lf._build_model(c, cells, s, dtype=object)
        start_vals = {n: m.__dict__['_' + n][tc] for n in m.names}
        with lf.shimmed():
            out = lf._call_impl(m, c, min_iter=min_iter_, tol=tol_, offset=offset_)
        return m, out, start_vals

    def fn():
        bad = []
        mT, oT, start_vals = run(cfg)
        mU, oU, _ = run(cfg_plain)
        mO, oO, _ = run(cfg_off)
        c = cur()
        for nm, o, m in (('traced', oT, mT), ('trace-off', oO, mO)):
            for k in OBS:
                if o[k] != oU[k]:
                    bad.append(f'{nm} vs untraced: {k} {o[k]!r} != {oU[k]!r}')
            for n in mU.names:
                for j in range(L):
                    a, b = _term(m.__dict__['_' + n][j]), _term(mU.__dict__['_' + n][j])
                    if not a.eq(b) and c._check(a != b) == 'sat':
                        bad.append(f'{nm} vs untraced: cell {n}[{j}] differs')
        # no trace with tracing off, or on the untraced positions
        pre_sel = cfg.get('trace_prelude')
        other = (tc + 1) % L if pre_sel is not None else None
        for j in range(L):
            if not mO.trace[j].is_empty() or mO.trace[j].index:
                bad.append(f'trace written at {j} with tracing off')
            if j == other and j != tc:
                want_names = mT.names if pre_sel is True else list(pre_sel)
                if list(mT.trace[j].names) != list(want_names):
                    bad.append(f'trace of the earlier solve at {j} holds {list(mT.trace[j].names)}, asked for {list(want_names)}')
            elif j != tc and (not mT.trace[j].is_empty() or mT.trace[j].index):
                bad.append(f'trace written at position {j} != t')
        # trace content
        tr = mT.trace[tc]
        st = mT._script_state()
        want_labels = _expected_labels(st['log'])
        if twin == 'label_off' and len(want_labels) > 3:
            want_labels[3] = 99
        if list(tr.index) != want_labels:
            bad.append(f'trace labels {list(tr.index)} != expected {want_labels}')
        else:
            tnames = mT.names if trace_arg is True else ([trace_arg] if isinstance(trace_arg, str) else list(trace_arg))
            if list(tr.names) != list(tnames):
                bad.append(f'trace names {tr.names} != {tnames}')
            vals = tr.values
            if list(tr.names) != list(tnames):
                pass    # reported above; the rows cannot be matched to names
            elif vals.shape != (len(tnames), len(want_labels)):
                bad.append(f'trace shape {vals.shape}')
            else:
                # expected snapshot per label
                after_offset = None
                passes = _pass_of_column(st['log'])
                n_start = 0
                for col, lab in enumerate(want_labels):
                    if lab == 'start':
                        n_start += 1
                    if n_start > 1 and (lab in ('start', 'before', 0) or (lab == 'end' and col != len(want_labels) - 1)):
                        continue   # second solve of the period: its pre-pass snapshots are checked through the labels only
                    if lab == 'end' and cfg.get('repeat') and col != len(want_labels) - 1:
                        continue
                    if lab == 'start':
                        snap = start_vals
                    elif lab in ('before', 0):
                        if after_offset is None:
                            # values after the offset copy = what the untraced twin saw before pass 1:
                            # endogenous at t copied from t+offset (same concretisation on this path)
                            after_offset = _after_offset(cfg, mT, start_vals)
                        snap = after_offset
                    elif lab == 'end':
                        snap = {n: mT.__dict__['_' + n][tc] for n in mT.names}
                    else:
                        snap = st['snaps'][passes[col]]
                        if twin == 'snap_off' and passes[col] == 1 and 2 in st['snaps']:
                            snap = st['snaps'][2]
                    for row, n in enumerate(tnames):
                        a, b = _term(vals[row, col]), _term(snap[n])
                        if not a.eq(b) and c._check(a != b) == 'sat':
                            bad.append(f'trace snapshot {lab!r} of {n} differs from the values after that step')
                # final snapshot equals the stored solution
                last = want_labels[-1]
                if oT['status'] == '.' and last == 'end':
                    for row, n in enumerate(tnames):
                        a, b = _term(vals[row, -1]), _term(mT.__dict__['_' + n][tc])
                        if not a.eq(b) and c._check(a != b) == 'sat':
                            bad.append(f'final snapshot of {n} differs from the stored solution')
        return {'bad': bad, 'oT': oT, 'oU': oU}

    res: Dict[str, Any] = {'cfg': lf._cfg_public(cfg), 'paths': 0, 'mismatch_paths': 0, 'candidates': [], 'outcomes': {},
                           'witness_checked': 0, 'witness_bad': [], 'spurious_under_uf': 0, 'nontrivial_paths': 0}
    for path in ctx.explore(fn):
        res['paths'] += 1
        rec = path.outcome
        if rec[0] == 'exc':
            raise RuntimeError(f'harness raised on a path: {rec[1]!r}')
        r = rec[1]
        o = r['oT']
        okey = f"{o['kind']}:{o['exc'] or o['ret']}:{o['status']}:{o['iters']}"
        res['outcomes'][okey] = res['outcomes'].get(okey, 0) + 1
        if o['n_eval'] >= 1:
            res['nontrivial_paths'] += 1
        if r['bad']:
            res['mismatch_paths'] += 1
            if len(res['candidates']) + res['spurious_under_uf'] >= MAX_CANDIDATES:
                continue
            inputs = lf._ieee_witness(ctx, path, cfg, [])
            if inputs is None:
                res['spurious_under_uf'] += 1
                continue
            rep = replay_trace_concrete(cfg, inputs)
            res['candidates'].append({'symbolic': r['bad'], 'inputs': inputs, 'replay': rep})
    res['exhausted'] = ctx.exhausted
    res['smt_samples'] = list(ctx.samples)
    res['stats'] = ctx.stats.as_dict()
    res['assumptions'] = list(ctx.assumptions)
    res['shim_calls'] = dict(lf._SHIM.calls)
    res['wall_s'] = round(time.time() - t_start, 3)
    return res


def _after_offset(cfg, mT, start_vals):
    """Values at t after the offset copy, reconstructed from the traced model's
    own pre-state: for exogenous names nothing changes; for endogenous names the
    value is whatever the 'before' hook saw, i.e. cell[t+offset] of the initial
    cells.  We read it from the model's log-independent state: at the time of the
    pre-hook nothing but the copy has happened, so the snapshot equals
    initial[t+offset]; offset was concretised on this path, so we can search the
    initial cells for the term z3-equal under the path condition."""
    names_, cells, s, tol_, min_iter_, offset_ = lf._symbolic_inputs(cfg)
    L, t = cfg['L'], cfg['t']
    tc = t if t >= 0 else t + L
    out = dict(start_vals)
    if cfg['offset'] == 'sym':
        c = cur()
        # which source position does the path condition force?
        for src in range(L):
            if c._check(offset_.t != src - tc) == 'unsat':
                for n in mT.endogenous:
                    out[n] = cells[n][src]
                break
    return out


def replay_trace_concrete(cfg: dict, inp: dict) -> dict:
    """Concrete twin run: traced vs untraced on real float64 arrays."""
    import numpy as np

    def run(c):
        cells = {n: [np.float64(x) for x in vals] for n, vals in inp['cells'].items()}
        m = lf._build_model(c, cells, lf._concrete_script(c, inp), dtype=float)
        start0[0] = {n: [float(x) for x in m.__dict__['_' + n]] for n in m.names}
        out = lf._call_impl(m, c, min_iter=inp['min_iter'], tol=inp['tol'], offset=inp['offset'])
        return m, out

    L, t = cfg['L'], cfg['t']
    tc = t if t >= 0 else t + L
    bad = []
    start0: list = [None]
    mT, oT = run(cfg)
    initial = start0[0]
    mU, oU = run(dict(cfg, tracer=None))
    mO, oO = run(dict(cfg, tracer=False))
    for j in range(L):
        if not mO.trace[j].is_empty() or mO.trace[j].index:
            bad.append(f'trace written at position {j} with tracing off (trace=False): labels {list(mO.trace[j].index)}')
        pre_sel = cfg.get('trace_prelude')
        if pre_sel is not None and j == (tc + 1) % L and j != tc:
            want_names = mT.names if pre_sel is True else list(pre_sel)
            if list(mT.trace[j].names) != list(want_names):
                bad.append(f'trace of the earlier solve at {j} holds {list(mT.trace[j].names)}, asked for {list(want_names)}')
        elif j != tc and (not mT.trace[j].is_empty() or mT.trace[j].index):
            bad.append(f'trace written at position {j} != t')
    for k in OBS:
        if oO[k] != oU[k]:
            bad.append(f'trace-off vs untraced: {k} {oO[k]!r} != {oU[k]!r}')
    for k in OBS:
        if oT[k] != oU[k]:
            bad.append(f'traced vs untraced: {k} {oT[k]!r} != {oU[k]!r}')
    for n in mU.names:
        for j in range(L):
            if not lf._same_bits(float(mT[n][j]), float(mU[n][j])):
                bad.append(f'traced vs untraced: cell {n}[{j}]')
    tr = mT.trace[tc]
    st = mT._script_state()
    want = _expected_labels(st['log'])
    if cfg.get('twin') == 'label_off' and len(want) > 3:
        want[3] = 99
    if list(tr.index) != want:
        bad.append(f'trace labels {list(tr.index)} != expected {want}')
    else:
        trace_arg = cfg['tracer']
        tnames = mT.names if trace_arg is True else ([trace_arg] if isinstance(trace_arg, str) else list(trace_arg))
        passes = _pass_of_column(st['log'])
        if list(tr.names) != list(tnames):
            bad.append(f'trace names {list(tr.names)} != {list(tnames)}')
            return {'impl': lf._pub(oT), 'ref': lf._pub(oU), 'bad': bad}
        # pre-pass snapshots of the first solve of the period: 'start' = the cells as they were before the call,
        # 'before' and 0 = the same with the endogenous cells copied from t+offset (added after C17_r11mut1, which the
        # symbolic side saw but this replay could not confirm)
        off = inp.get('offset') or 0
        simple = cfg.get('trace_prelude') is None and not cfg.get('repeat') and isinstance(off, int) and 0 <= tc + off < L
        seen_start = 0
        for col, lab in enumerate(want):
            if lab == 'start':
                seen_start += 1
            if seen_start == 1 and (lab == 'start' or (lab in ('before', 0) and not isinstance(lab, bool) and simple)):
                for row, n in enumerate(tnames):
                    exp = initial[n][tc]
                    if lab != 'start' and n in mT.endogenous:
                        exp = initial[n][tc + off]
                    if not lf._same_bits(float(tr.values[row, col]), float(exp)):
                        bad.append(f'trace snapshot {lab!r} of {n} = {tr.values[row, col]!r}, value at that step = {exp!r}')
            if isinstance(lab, int) and lab >= 1:
                snap = st['snaps'][passes[col]]
                if cfg.get('twin') == 'snap_off' and passes[col] == 1 and 2 in st['snaps']:
                    snap = st['snaps'][2]
                for row, n in enumerate(tnames):
                    if not lf._same_bits(float(tr.values[row, col]), float(snap[n])):
                        bad.append(f'trace snapshot {lab} of {n} = {tr.values[row, col]!r}, value after the pass = {snap[n]!r}')
        if oT['status'] == '.' and want and want[-1] == 'end':
            for row, n in enumerate(tnames):
                if not lf._same_bits(float(tr.values[row, -1]), float(mT[n][tc])):
                    bad.append(f'final snapshot of {n} = {tr.values[row, -1]!r} but the stored solution is {mT[n][tc]!r}')
    return {'impl': lf._pub(oT), 'ref': lf._pub(oU), 'bad': bad}


def configs(tier: str):
    out = []
    B_max = 2 if tier == 'quick' else 4
    for tracer in (True, ['Y0'], 'Y0'):
        for errors in ('raise', 'skip', 'ignore', 'replace'):
            for failures in ('raise', 'ignore'):
                for B in range(0, B_max + 1):
                    for N in (1, 2):
                        if N == 2 and (tracer is not True or B > 3):
                            continue
                        for faults in (False, True):
                            if faults and (tier == 'quick' and (B > 1 or N == 2)):
                                continue
                            for t, offset, entry in ((1, 'zero', 'solve_t'), (-1, 'sym', 'solve_t'), (2, 'zero', 'solve_period')):
                                if offset == 'sym' and (faults or tracer is not True):
                                    continue
                                if entry == 'solve_period' and (faults or errors not in ('raise', 'ignore')):
                                    continue
                                for cfe in ((True, False) if faults else (True,)):
                                    out.append(lf.default_cfg(N=N, B=B, errors=errors, failures=failures, cfe=cfe, t=t,
                                                              offset=offset, finite=False, faults=faults,
                                                              hook_faults=faults and B <= 1, entry=entry, tracer=tracer,
                                                              post_write=(tracer is True)))
    # strict models (no ad hoc attributes may appear): tracing works all the same
    for tracer in (True, ['Y0'], 'Y0'):
        for errors, failures in (('raise', 'ignore'), ('skip', 'ignore')):
            for B in (0, 1, 2):
                for entry in ('solve_t', 'solve_period'):
                    out.append(lf.default_cfg(N=1, B=B, errors=errors, failures=failures, t=1 if entry == 'solve_period' else -1, offset='zero', finite=False,
                                              faults=False, entry=entry, tracer=tracer, strict=True))
    # a variable whose (legal) name is also a method / property of the model class is traced like any other
    for nm in ('size', 'copy', 'eval', 'values'):
        for tracer in (True, [nm], nm, ['Y0', nm]):
            for errors, failures in (('raise', 'ignore'), ('skip', 'ignore')):
                out.append(lf.default_cfg(N=1, B=2, errors=errors, failures=failures, t=1, offset='zero', finite=False, faults=False,
                                          entry='solve_t', tracer=tracer, exo_name=nm))
    # HISTORIES: every period traced and solved before, then the series replaced by whole-series assignment / the model
    # copied / reindexed: the snapshots must show the values the model holds NOW
    for stage in ('rebind', 'copy', 'reindex', 'rebind_copy'):
        for tracer in (True, ['Y0', 'X']):
            for errors, failures in (('raise', 'ignore'), ('skip', 'ignore')):
                for B in (1, 2):
                    out.append(lf.default_cfg(N=1, B=B, errors=errors, failures=failures, t=1, offset='zero', finite=False, faults=False,
                                              entry='solve_t', tracer=tracer, stage=stage, post_write=(tracer is True)))
    # an earlier, failed traced solve of another period with ANOTHER selection leaves nothing behind
    for tracer, pre in ((True, ['X']), (['Y0'], True), ('Y0', ['X', 'Y0']), (['Y0', 'X'], ['Y0'])):
        for errors, failures in (('raise', 'ignore'), ('skip', 'ignore')):
            for B in (1, 2):
                out.append(lf.default_cfg(N=1, B=B, errors=errors, failures=failures, t=1, offset='zero', finite=False, faults=False,
                                          entry='solve_t', tracer=tracer, trace_prelude=pre))
    # a variable added to the instance at run time is part of "all variables" (trace=True)
    for errors, failures in (('raise', 'ignore'), ('skip', 'ignore')):
        for B in (1, 2):
            out.append(lf.default_cfg(N=1, B=B, errors=errors, failures=failures, t=1, offset='zero', finite=False, faults=False,
                                      entry='solve_t', tracer=True, extra_var=True))
            out.append(lf.default_cfg(N=1, B=B, errors=errors, failures=failures, t=1, offset='zero', finite=False, faults=False,
                                      entry='solve_t', tracer=['Y0', 'Q'], extra_var=True))
    # the same period solved twice with tracing (reset=False): the trace keeps appending; solution unchanged
    for tracer in (True, ['Y0']):
        for errors, failures in (('raise', 'ignore'), ('ignore', 'ignore'), ('skip', 'ignore')):
            for B in (1, 2) if tier == 'quick' else (1, 2, 3):
                out.append(lf.default_cfg(N=1, B=B, errors=errors, failures=failures, t=1, offset='zero', finite=False, faults=False,
                                          entry='solve_t', tracer=tracer, repeat=True, post_write=(tracer is True)))
    return out


TWINS = [
    lf.default_cfg(N=1, B=2, tracer=True, twin='label_off'),
    lf.default_cfg(N=1, B=2, tracer=True, failures='ignore', twin='snap_off'),
]


def finding_key(cfg: dict, cand: dict) -> str:
    bad = cand['replay']['bad']
    return f"trace={cfg['tracer']},errors={cfg['errors']},B={cfg['B']},N={cfg['N']},t={cfg['t']},entry={cfg['entry']}:{bad[0] if bad else '?'}"


def main() -> int:
    tier = vlib.tier()
    rep = vlib.Report('C17', 'model_checking', tier)
    run_family(
        rep, configs(tier), TWINS,
        functions=['fsic.extensions.model.TracerMixin.solve_t/solve_t_before/solve_t_after/_evaluate/trace_t',
                   'fsic.extensions.model.Trace.append', 'fsic.core.models.BaseModel.solve_t',
                   'fsic.core.interfaces.SolverMixin.solve_period'],
        bounds={'max_iter': f"0..{2 if tier == 'quick' else 4}", 'check_variables': '1..2', 'span_length': 3,
                'trace': [True, ['Y0'], 'Y0'], 'entry': ['solve_t', 'solve_period'],
                'values': 'every Float64 per cell and pass; symbolic fault kinds', 'reset': False},
        outside=['multi-period solve() with tracing is decided in C05 (traced twin) together with this per-period result',
                 'more than two solves of one period',
                 'reset=True', 'pandas export of a Trace', "trace contents after a rejected call (a 'start' snapshot is written; not a solution observable)"],
        key_fn=finding_key, explore=explore_trace_config,
    )
    return rep.finish()


if __name__ == '__main__':
    sys.exit(main())
