"""C10 -- label-based access addresses exactly the labelled periods.

Real code: VectorContainer.__getitem__/__setitem__/_resolve_period_slice/
_locate_period_in_span (+ fallback).  Series are object arrays of distinct
symbolic cells; span labels, requested labels and the written value are z3
variables (labels: unconstrained integers, so present / absent / repeated are
all covered); the slice step is a symbolic integer concretised in 1..n+1.
Oracle: first position whose label equals the request; inclusive positions
pos(a), pos(a)+s, ... <= pos(b); KeyError iff no label equals.
"""
from __future__ import annotations

import itertools
import sys
import time
import warnings
from typing import Any, Dict, List, Optional

import numpy as np
import z3

import fsic
from fsic.core.containers import VectorContainer
import vlib
from checks import loopfam as lf
from checks.loopdriver import run_family
from symx.core import Ctx, cur
from symx.src import ConSrc, SymSrc, witness
from symx.values import SFloat, SInt, SLabel, fpval

STRS = ['a', 'b', 'c', 'd', 'e']


def cfg10(**kw):
    c = dict(span='list_sym', n=3, op='get', a='sym', b='sym', step='none', distinct=False, twin=None)
    c.update(kw)
    return c


def _labels(cfg, src):
    n, kind = cfg['n'], cfg['span']
    if kind in ('list_sym', 'nd_obj_sym'):
        return [src.lab(f'lab_{j}') for j in range(n)]
    if kind in ('range', 'nd_int'):
        return list(range(1990, 1990 + n))
    if kind == 'range_step':
        return list(range(-6, -6 + 3 * n, 3))   # stepped, straddling zero (labels -6, -3, 0, 3, ...)
    if kind in ('list_str', 'nd_str'):
        return STRS[:n]
    if kind == 'list_mixed':
        return (['x', 7, (1, 2), 2.5, None])[:n]
    raise ValueError(kind)


def _span(cfg, labels):
    kind = cfg['span']
    if kind in ('list_sym', 'list_str', 'list_mixed'):
        return list(labels)
    if kind == 'nd_obj_sym':
        arr = np.empty(len(labels), dtype=object)
        for j, x in enumerate(labels):
            arr[j] = x
        return arr
    if kind == 'range':
        return range(1990, 1990 + cfg['n'])
    if kind == 'range_step':
        return range(-6, -6 + 3 * cfg['n'], 3)
    if kind == 'nd_int':
        return np.arange(1990, 1990 + cfg['n'])
    if kind == 'nd_str':
        return np.array(labels)
    raise ValueError(kind)


def _req(cfg, which, src):
    v = cfg[which]
    if v == 'sym':
        return src.lab(which)
    if v == 'none':
        return None
    return v


def _first(labels, x) -> Optional[int]:
    for j, lab in enumerate(labels):
        if bool(lab == x):
            return j
    return None


def _run(fn):
    try:
        with warnings.catch_warnings():
            warnings.simplefilter('ignore')
            return ('ret', fn())
    except Exception as e:  # noqa: BLE001
        return ('exc', type(e).__name__)


def _same(x, y, symbolic) -> bool:
    if symbolic:
        xt = x.t if isinstance(x, SFloat) else fpval(float(x))
        yt = y.t if isinstance(y, SFloat) else fpval(float(y))
        return xt.eq(yt) or cur()._check(xt != yt) == 'unsat'
    return lf._same_bits(float(x), float(y))


def _staged(cfg, labels, cells, dtype):
    """The container in the state under test.  cfg['stage']: None (constructed on the span, cells written into its
    arrays) or a HISTORY of public calls -- 'grown': built one period shorter, read through every access path, then
    reindexed to the span; 'copy': read, then copied; 'rebind': read, then every series replaced by whole-series assignment.
    Lengths, positions or arrays remembered from before are stale afterwards."""
    n, stage = cfg['n'], cfg.get('stage')
    if stage == 'grown' and n >= 1:
        c = VectorContainer(_span(dict(cfg, n=n - 1), labels[:n - 1]))
    else:
        c = VectorContainer(_span(cfg, labels))
    c.add_variable('X', 0.0, dtype=dtype)
    c.add_variable('W', 0.0, dtype=dtype)
    if stage:
        with warnings.catch_warnings():
            warnings.simplefilter('ignore')
            have = list(c.span)
            for v in ('X', 'W'):
                getattr(c, v), c[v], c[v, :], c[v, ::1], c.eval(v)
                if have:
                    c[v, have[0]:], c[v, :have[-1]], c[v, have[0]]
                    c[v, have[0]:] = 1.0
                    c[v, :] = 2.0
            c.values, c.size
        if stage == 'grown':
            c = c.reindex(_span(cfg, labels))
        elif stage == 'copy':
            c = c.copy()
        for v in cells:
            setattr(c, v, list(cells[v]))
    else:
        for v in cells:
            for j in range(n):
                c.__dict__['_' + v][j] = cells[v][j]
    return c


class _M(__import__('fsic').BaseModel):
    ENDOGENOUS = ['X']
    EXOGENOUS = ['W']
    NAMES = ENDOGENOUS + EXOGENOUS
    CHECK = ENDOGENOUS


def meta_scenario(cfg, src) -> List[str]:
    """Label access to the variables a MODEL keeps beside its equation variables (`status`, `iterations`: in `index`, not in
    `names`): get / set by label and by label slice address exactly the labelled positions, absent labels raise."""
    n = cfg['n']
    labels = _labels(cfg, src)
    m = _M(_span(cfg, labels))
    bad: List[str] = []
    a, b = _req(cfg, 'a', src), _req(cfg, 'b', src)
    for var, val, blank in (('status', 'F', '-'), ('iterations', 7, -1)):
        before = list(m[var])
        if cfg['op'] == 'meta_set':
            r = _run(lambda: m.__setitem__((var, a), val))
            p = _first(labels, a)
            want = list(before)
            if p is None:
                if r != ('exc', 'KeyError'):
                    bad.append(f'{var}: absent label on write: expected KeyError, got {r}')
            else:
                want[p] = val
                if r[0] != 'ret':
                    bad.append(f'{var}: write at label position {p}: {r}')
            if [x for x in m[var]] != want:
                bad.append(f'{var} after write by label: {list(m[var])} != {want}')
            g = _run(lambda: m[var, a])
            if p is not None and (g[0] != 'ret' or g[1] != want[p]):
                bad.append(f'{var}: read back by label gives {g}')
        else:
            pa = 0 if a is None else _first(labels, a)
            pb = n - 1 if b is None else _first(labels, b)
            r = _run(lambda: m.__setitem__((var, slice(a, b)), val))
            want = list(before)
            if pa is None or pb is None:
                if r != ('exc', 'KeyError'):
                    bad.append(f'{var}: absent slice label on write: expected KeyError, got {r}')
            else:
                for j in range(pa, pb + 1):
                    want[j] = val
                if r[0] != 'ret':
                    bad.append(f'{var}: slice write over positions {pa}..{pb}: {r}')
            if [x for x in m[var]] != want:
                bad.append(f'{var} after slice write: {list(m[var])} != {want}')
        m[var] = blank
    return bad


def scenario(cfg, src, symbolic: bool) -> List[str]:
    if cfg['op'] in ('meta_set', 'meta_setslice'):
        return meta_scenario(cfg, src)
    n, op = cfg['n'], cfg['op']
    labels = _labels(cfg, src)
    dtype = object if symbolic else float
    cells = {v: [src.f(f'{v}_{j}') for j in range(n)] for v in ('X', 'W')}
    c = _staged(cfg, labels, cells, dtype)
    a, b = _req(cfg, 'a', src), _req(cfg, 'b', src)
    step = src.i('step') if cfg['step'] == 'sym' else (None if cfg['step'] == 'none' else cfg['step'])
    val = src.f('val')
    twin = cfg.get('twin')
    bad: List[str] = []

    def expect_positions():
        """Positions addressed by a:b:step (None -> KeyError)."""
        pa = 0 if a is None else _first(labels, a)
        pb = n - 1 if b is None else _first(labels, b)
        if pa is None or pb is None:
            return None
        s = 1 if step is None else (step.__index__() if hasattr(step, '__index__') and not isinstance(step, int) else int(step))
        if twin == 'exclusive':
            pb -= 1
        return list(range(pa, pb + 1, s))

    if op == 'get':
        r = _run(lambda: c['X', a])
        p = _first(labels, a)
        if twin == 'next' and p is not None:
            p = min(p + 1, n - 1)
        if p is None:
            if r != ('exc', 'KeyError'):
                bad.append(f'absent label: expected KeyError, got {r[:2] if r[0] == "exc" else "a value"}')
        elif r[0] != 'ret':
            bad.append(f'label at position {p}: got {r}')
        elif not _same(r[1], cells['X'][p], symbolic):
            bad.append(f'label at position {p}: a different element was returned')
    elif op == 'set':
        r = _run(lambda: c.__setitem__(('X', a), val))
        p = _first(labels, a)
        if p is None:
            if r != ('exc', 'KeyError'):
                bad.append(f'absent label on write: expected KeyError, got {r}')
            exp = {v: list(cells[v]) for v in cells}
        else:
            if r[0] != 'ret':
                bad.append(f'write at label position {p}: {r}')
            exp = {v: list(cells[v]) for v in cells}
            exp['X'][p] = val
        for v in cells:
            for j in range(n):
                if not _same(c.__dict__['_' + v][j], exp[v][j], symbolic):
                    bad.append(f'after write at label: cell {v}[{j}] is not what it should be')
    elif op in ('getslice', 'setslice'):
        sl = slice(a, b, step)
        if op == 'getslice':
            r = _run(lambda: list(c['X', sl]))
        else:
            r = _run(lambda: c.__setitem__(('X', sl), val))
        pos = expect_positions()
        if pos is None:
            if r != ('exc', 'KeyError'):
                bad.append(f'absent slice label: expected KeyError, got {r if r[0] == "exc" else "a result"}')
            exp = {v: list(cells[v]) for v in cells}
        elif r[0] != 'ret':
            bad.append(f'slice over positions {pos}: {r}')
            exp = None
        elif op == 'getslice':
            got = r[1]
            if len(got) != len(pos):
                bad.append(f'slice returned {len(got)} elements, expected positions {pos}')
            else:
                for g, p in zip(got, pos):
                    if not _same(g, cells['X'][p], symbolic):
                        bad.append(f'slice element for position {p} is a different element')
            exp = {v: list(cells[v]) for v in cells}
        else:
            exp = {v: list(cells[v]) for v in cells}
            for p in pos:
                exp['X'][p] = val
        if exp is not None:
            for v in cells:
                for j in range(n):
                    if not _same(c.__dict__['_' + v][j], exp[v][j], symbolic):
                        bad.append(f'after slice operation: cell {v}[{j}] is not what it should be')
    elif op == 'roundtrip':
        # write through one access path, read back through every other
        w, p = cfg['wpath'], cfg['pos']
        lab = labels[p]
        firstp = _first(labels, lab)
        writers = {
            'attr': lambda: c.X.__setitem__(p, val),
            'key': lambda: c['X'].__setitem__(p, val),
            'label': lambda: c.__setitem__(('X', lab), val),
            'slice': lambda: c.__setitem__(('X', slice(lab, lab)), val),
            'whole': lambda: setattr(c, 'X', [val if j == p else cells['X'][j] for j in range(n)]) if not symbolic else
            c.__dict__['_X'].__setitem__(p, val),
        }
        r = _run(writers[w])
        if r[0] != 'ret':
            bad.append(f'write via {w}: {r}')
        # label writes address the first position carrying that label
        target = p if w in ('attr', 'key', 'whole') else firstp
        if twin == 'wrong_target':
            target = (target + 1) % n
        readers = {
            'attr': lambda: c.X[target],
            'key': lambda: c['X'][target],
            'getattr': lambda: getattr(c, 'X')[target],
            'values': lambda: c.values[0][target],
        }
        if firstp == target:
            readers['label'] = lambda: c['X', lab]
            readers['slice'] = lambda: list(c['X', lab:lab])[0]
        for name, rd in readers.items():
            g = _run(rd)
            if g[0] != 'ret' or not _same(g[1], val, symbolic):
                bad.append(f'value written via {w} at position {target} is not read back via {name}')
        for j in range(n):
            if j != target and not _same(c.__dict__['_X'][j], cells['X'][j], symbolic):
                bad.append(f'write via {w} disturbed position {j}')
    return bad


def explore10(cfg: dict) -> dict:
    t_start = time.time()
    ctx = Ctx(budget_s=300)
    n = cfg['n']
    src0 = SymSrc()
    labs = _labels(cfg, src0)
    if cfg['distinct'] and labs and isinstance(labs[0], SInt) and n > 1:
        ctx.assume(z3.Distinct(*[x.t for x in labs]), 'span labels pairwise distinct')
    if cfg['step'] == 'sym':
        ctx.assume(z3.And(z3.Int('step') >= 1, z3.Int('step') <= n + 1), f'1 <= step <= n+1 = {n + 1}')
    holder: Dict[str, Any] = {}

    def fn():
        src = SymSrc()
        holder['src'] = src
        return scenario(cfg, src, True)

    res: Dict[str, Any] = {'cfg': dict(cfg), 'paths': 0, 'mismatch_paths': 0, 'candidates': [], 'outcomes': {},
                           'witness_checked': 0, 'witness_bad': [], 'spurious_under_uf': 0, 'nontrivial_paths': 0}
    for path in ctx.explore(fn):
        res['paths'] += 1
        if path.outcome[0] == 'exc':
            raise RuntimeError(f'harness raised on a path: {path.outcome[1]!r}')
        bad = path.outcome[1]
        res['nontrivial_paths'] += 1
        res['outcomes']['ok' if not bad else 'mismatch'] = res['outcomes'].get('ok' if not bad else 'mismatch', 0) + 1
        if bad:
            res['mismatch_paths'] += 1
            if len(res['candidates']) >= 3:
                continue
            inp = witness(ctx, holder['src'])
            if inp is None:
                res['spurious_under_uf'] += 1
                continue
            # distinct cell values so that a wrong element is visible
            for k in list(inp['f']):
                if k != 'val':
                    inp['f'][k] = float(abs(hash(k)) % 997) + 0.5
            inp['f']['val'] = -1234.5
            cb = scenario(cfg, ConSrc(inp), False)
            res['candidates'].append({'symbolic': bad, 'inputs': inp, 'replay': {'bad': cb, 'impl': None, 'ref': None}})
    res['exhausted'] = ctx.exhausted
    res['smt_samples'] = list(ctx.samples)
    res['stats'] = ctx.stats.as_dict()
    res['assumptions'] = list(ctx.assumptions)
    res['shim_calls'] = {}
    res['wall_s'] = round(time.time() - t_start, 3)
    return res


def configs(tier: str):
    out = []
    ns = (1, 2, 3, 4) if tier == 'quick' else (1, 2, 3, 4, 5, 6, 7)
    for span in ('list_sym', 'nd_obj_sym', 'range', 'nd_int', 'range_step'):
        for n in ns:
            distinct = span == 'nd_obj_sym'
            for op in ('get', 'set'):
                out.append(cfg10(span=span, n=n, op=op, distinct=distinct))
            for op in ('getslice', 'setslice'):
                for a, b in (('sym', 'sym'), ('none', 'sym'), ('sym', 'none'), ('none', 'none')):
                    for step in ('none', 'sym'):
                        if n > 5 and step == 'sym' and op == 'setslice' and span != 'list_sym':
                            continue
                        out.append(cfg10(span=span, n=n, op=op, a=a, b=b, step=step, distinct=distinct))
            for w in ('attr', 'key', 'label', 'slice', 'whole'):
                for p in range(n):
                    out.append(cfg10(span=span, n=n, op='roundtrip', wpath=w, pos=p, distinct=distinct))
    # plain-int labels on range / int64-ndarray spans (a proxy label would bypass any `isinstance(label, int)` fast path):
    # every label from below the first to above the last
    for span in ('range', 'nd_int', 'range_step'):
        for n in (1, 3) if tier == 'quick' else (1, 2, 3, 5, 7):
            labs = list(range(1990 - n - 2, 1990 + n + 3)) if span != 'range_step' else list(range(-9, 3 * n - 3))
            for a in labs:
                out.append(cfg10(span=span, n=n, op='get', a=a))
                out.append(cfg10(span=span, n=n, op='set', a=a))
            for a in labs[::2] + ['none']:
                for b in labs[1::2] + ['none']:
                    out.append(cfg10(span=span, n=n, op='getslice', a=a, b=b, step='sym' if n > 1 else 'none'))
                    out.append(cfg10(span=span, n=n, op='setslice', a=a, b=b))
    # a model's status / iterations by label and label slice (symbolic labels on list spans, concrete ones elsewhere)
    for span in ('list_sym', 'range', 'nd_int', 'list_str'):
        for n in (1, 2, 3):
            sym = span == 'list_sym'
            labs = _labels(cfg10(span=span, n=n), SymSrc())
            extra = 'zz' if span == 'list_str' else 1980
            for a in (['sym'] if sym else list(labs) + [extra]):
                out.append(cfg10(span=span, n=n, op='meta_set', a=a))
            for a, b in ([('sym', 'sym'), ('none', 'sym'), ('sym', 'none')] if sym else [(labs[0], labs[-1]), ('none', labs[0]), (labs[-1], 'none'), ('none', 'none'), (extra, 'none')]):
                out.append(cfg10(span=span, n=n, op='meta_setslice', a=a, b=b))
    # HISTORIES: the container was shorter / was read / was copied before (nothing remembered from then may matter)
    for stage in ('grown', 'copy', 'rebind'):
        for span in ('list_sym', 'range', 'nd_int', 'range_step', 'list_str', 'nd_str'):
            for n in (1, 2, 3) if tier == 'quick' else (1, 2, 3, 4, 5):
                if span == 'list_sym' and n > 3:
                    continue
                sym = span == 'list_sym'
                labs = _labels(cfg10(span=span, n=n), SymSrc())
                ab = [('sym', 'sym'), ('none', 'sym'), ('sym', 'none'), ('none', 'none')] if sym else \
                     [(labs[0], 'none'), ('none', labs[-1]), ('none', 'none'), (labs[-1], 'none'), (labs[0], labs[-1])]
                for a, b in ab:
                    for op in ('getslice', 'setslice'):
                        out.append(cfg10(span=span, n=n, op=op, a=a, b=b, step='sym' if (sym and n > 1) else 'none', stage=stage))
                for a in (['sym'] if sym else list(labs)):
                    out.append(cfg10(span=span, n=n, op='get', a=a, stage=stage))
                    out.append(cfg10(span=span, n=n, op='set', a=a, stage=stage))
                for w in ('attr', 'label', 'slice', 'whole'):
                    out.append(cfg10(span=span, n=n, op='roundtrip', wpath=w, pos=n - 1, stage=stage))
    # a tuple (or an empty tuple) asked for as a label on spans that do not contain it -- even if its members are labels
    for span in ('range', 'list_str', 'nd_int'):
        labs3 = _labels(cfg10(span=span, n=3), SymSrc())
        for a in ((labs3[0], labs3[2]), (labs3[1],), ()):
            out.append(cfg10(span=span, n=3, op='get', a=a))
            out.append(cfg10(span=span, n=3, op='set', a=a))
    # None asked for as a LABEL on spans that do not contain it: an absent label like any other (KeyError), for get and set
    for span in ('range', 'nd_int', 'list_str', 'list_mixed'):
        for n in (1, 3):
            out.append(cfg10(span=span, n=n, op='get', a=None))
            out.append(cfg10(span=span, n=n, op='set', a=None))
    # labels of ANOTHER TYPE that look like a present label: a non-integral float or a digit string on integer spans, a
    # present string with a suffix / a prefix of one on string spans (a locator that converts the label to the span's
    # element type would alias a present period)
    for span in ('range', 'nd_int', 'list_str', 'nd_str'):
        for n in (2, 3) if tier == 'quick' else (1, 2, 3, 5):
            labs = _labels(cfg10(span=span, n=n), SymSrc())
            if span in ('range', 'nd_int'):
                odd = [labs[-1] + 0.5, labs[0] - 0.5, str(labs[-1]), float(labs[0]) + 1e-9]
            else:
                odd = [labs[-1] + 'x', labs[0] + '10', labs[0][:-1], ' ' + labs[0], labs[-1] + ' ']
            for a in odd:
                out.append(cfg10(span=span, n=n, op='get', a=a))
                out.append(cfg10(span=span, n=n, op='set', a=a))
                out.append(cfg10(span=span, n=n, op='getslice', a=a, b='none'))
                out.append(cfg10(span=span, n=n, op='setslice', a='none', b=a))
    for span in ('list_str', 'nd_str', 'list_mixed'):
        for n in (1, 3) if tier == 'quick' else (1, 2, 3, 4, 5):
            labs = _labels(cfg10(span=span, n=n), SymSrc())
            extra = 'zz' if span != 'list_mixed' else 'nope'
            for a in list(labs) + [extra]:
                out.append(cfg10(span=span, n=n, op='get', a=a))
                out.append(cfg10(span=span, n=n, op='set', a=a))
                for b in list(labs) + [extra, 'none']:
                    if span == 'list_mixed' and (a is None or b is None):
                        continue  # None as a label cannot be told from an open end in a slice
                    out.append(cfg10(span=span, n=n, op='getslice', a=a, b=b, step='sym' if n > 1 else 'none'))
                    out.append(cfg10(span=span, n=n, op='setslice', a=a, b=b))
    return out


TWINS = [
    cfg10(span='list_sym', n=3, op='get', twin='next'),
    cfg10(span='range', n=3, op='getslice', twin='exclusive'),
    cfg10(span='list_sym', n=3, op='roundtrip', wpath='label', pos=1, twin='wrong_target'),
]


def finding_key(cfg, cand) -> str:
    bad = cand['replay']['bad']
    labs = cand['inputs'].get('i', {})
    vals = [labs.get(f'lab_{j}') for j in range(cfg['n'])]
    if cfg['op'] in ('getslice', 'setslice') and (cfg['a'] == 'none' or cfg['b'] == 'none') and None not in vals and len(set(vals)) < len(vals):
        return 'open-ended-slice-follows-repeated-label'
    hist = f",history={cfg['stage']}" if cfg.get('stage') else ''
    return f"{cfg['span']},n={cfg['n']},{cfg['op']},a={cfg['a']},b={cfg['b']},step={cfg['step']}{hist}:{bad[0] if bad else '?'}"


def main() -> int:
    tier = vlib.tier()
    rep = vlib.Report('C10', 'model_checking', tier)
    run_family(
        rep, configs(tier), TWINS,
        functions=['fsic.core.containers.VectorContainer.__getitem__', '__setitem__', '_resolve_period_slice',
                   '_locate_period_in_span', '_locate_period_in_span_fallback'],
        bounds={'span_length': '1..4 (thorough 7)', 'span_types': ['list of symbolic integer labels', 'object ndarray of symbolic labels (fallback locator)',
                                                                   'range with non-zero origin', 'int64 ndarray', 'list of str', 'str ndarray', 'list of mixed hashables'],
                'labels': 'requested labels are unconstrained integers (present anywhere, repeated, absent)', 'step': 'symbolic 1..n+1',
                'value': 'any Float64'},
        outside=['pandas Index / PeriodIndex / DatetimeIndex (compiled get_loc)', 'negative or zero steps (not in the statement)',
                 'repeated labels on ndarray spans (the fallback locator refuses them: KeyError)'],
        key_fn=finding_key, explore=explore10,
    )
    rep.coverage['stubs'] = {'series': 'object-dtype ndarrays holding symbolic cells; real NumPy indexing'}
    rep.coverage['symbolic_inputs'] = ['span labels', 'requested labels', 'slice step', 'written value', 'every cell']
    return rep.finish()


if __name__ == '__main__':
    sys.exit(main())
