"""C14 -- layout of the script does not matter; the normal form is a fixed point.

1. (solver) for each program P and each layout l of the catalogue the C01
   obligation holds for render(P, l) against the SAME reference AST, for all
   cells, t, L: two layouts that both pass are equivalent to each other.
2. (concrete, program level) symbols' names/types/lags/leads are identical
   across layouts; parse(script) == merge of per-statement parses; a
   permutation of statements only reorders symbols.
3. (concrete) feeding Symbol.equation back ([t]->[0], [t-k]->[-k], [t+k]->[+k])
   reproduces the same equation and code text.
"""
from __future__ import annotations

import base64
import pickle

import itertools
import random
import re
import sys
from typing import Any, Dict, List

import fsic
import fsic.parser as fparser
import vlib
from checks.c01_generated_model import finish as c01_finish
from gram import LAYOUTS, Bin, Eq, Layout, Num, RefError, Var, classify, render, render_eq, renderer_selfcheck
from gram.driver import add_stats, run_items
from gram.enum import _ambiguous
from gram.family import program_set, show
from gram.pipeline import equivalence, parse_and_build, replay_values

LAY = {l.name: l for l in LAYOUTS}
T = fparser.Type


def _sig(symbols):
    return [(s.name, s.type, s.lags, s.leads) for s in symbols]


def _merge(lists):
    """Reference merge of per-statement symbol lists (written from the statement, not from Symbol.combine)."""
    out: Dict[str, Any] = {}
    verb = []
    for syms in lists:
        for s in syms:
            if s.name is None:
                verb.append(s)
                continue
            if s.name not in out:
                out[s.name] = s
                continue
            o = out[s.name]
            ty = o.type if o.type == s.type else max(o.type, s.type)
            lags = None if o.lags is None else min(o.lags, s.lags, 0)
            leads = None if o.leads is None else max(o.leads, s.leads, 0)
            out[s.name] = fparser.Symbol(s.name, ty, lags, leads, o.equation or s.equation, o.code or s.code)
    return list(out.values()) + verb


def _to_script(equation: str) -> str:
    """[t] -> [0], [t-k] -> [-k], [t+k] -> [+k] -- outside verbatim (backticked) fragments, which are code, not terms."""
    parts = re.split(r'(`[^`]*`)', equation)
    out = []
    for part in parts:
        if part.startswith('`'):
            out.append(part)
            continue
        e = part.replace('[t]', '[0]')
        out.append(re.sub(r'\[t([+-])(\d+)\]', lambda m: f'[{m.group(1)}{m.group(2)}]', e))
    return ''.join(out)


def work(item) -> Dict[str, Any]:
    prog, lay_name, twin = item
    lay = LAY[lay_name]
    text = render(prog, lay)
    out: Dict[str, Any] = {'prog': show(prog), 'layout': lay_name, 'bad': [], 'paths': 0, 'stats': {}, 'status': 'ok',
                           'program_level': 0}
    if _ambiguous(text):
        out['status'] = 'skipped_ambiguous'
        return out
    if not all(renderer_selfcheck(eq.expr, lay) for eq in prog):
        return {'harness_error': f'renderer self-check failed for {show(prog)!r} under {lay_name}', 'item': show(prog)}
    ref = classify(prog)
    pb = parse_and_build(text)
    plain = parse_and_build(render(prog, Layout()))
    if 'error' in plain:
        out['status'] = 'rejected'
        return out  # C01 reports rejections of the plain form
    if 'error' in pb:
        out['bad'].append({'what': f'layout {lay_name} rejected ({pb["error"]}: {pb["msg"][:80]}) although the plain layout is accepted',
                           'replayed': True, 'replay': {'text': text}})
        return out
    # 2. program-level assertions
    out['program_level'] += 1
    if _sig(pb['symbols']) != _sig(plain['symbols']):
        out['bad'].append({'what': f'symbols differ from the plain layout: {_sig(pb["symbols"])} vs {_sig(plain["symbols"])}',
                           'replayed': True, 'replay': {'text': text}})
    if lay_name == 'plain':
        stmts = [render_eq(eq, lay) for eq in prog]
        merged = _merge([fsic.parse_model(s) for s in stmts])
        whole = pb['symbols']
        if twin == 'merge_off':
            merged = merged[:-1]
        if merged != whole:
            out['bad'].append({'what': f'parse(script) != merge of per-statement parses', 'replayed': True,
                               'replay': {'text': text, 'whole': str(whole), 'merged': str(merged)}})
        if len(prog) > 1:
            perm = list(reversed(stmts))
            ps = fsic.parse_model('\n'.join(perm))
            if sorted(map(str, ps)) != sorted(map(str, whole)):
                out['bad'].append({'what': 'reordering statements changed the set of symbols', 'replayed': True,
                                   'replay': {'text': '\n'.join(perm)}})
        # 3. fixed point
        for s in whole:
            if s.type == T.ENDOGENOUS and s.equation:
                again = fsic.parse_model(_to_script(s.equation))
                got = [x for x in again if x.name == s.name][0]
                if (got.equation, got.code) != (s.equation, s.code):
                    out['bad'].append({'what': f'normal form is not a fixed point: {s.equation!r} -> {got.equation!r}; {s.code!r} -> {got.code!r}',
                                       'replayed': True, 'replay': {'text': _to_script(s.equation)}})
    # 1. solver: equivalence with the same reference AST
    if twin == 'plus_one':
        prog = (Eq(prog[0].target, Bin('+', prog[0].expr, Num('1'))),) + tuple(prog[1:])
    r = equivalence(prog, ref, pb['Model'], pb['symbols'], spelling='pos', check_text=False, check_reads=False)
    out['paths'] += r['paths']
    add_stats(out['stats'], r['stats'])
    out['assumptions'] = r['assumptions']
    out['spurious'] = r['spurious']
    if not r['exhausted']:
        return {'harness_error': f'exploration not exhaustive for {show(prog)!r}', 'item': show(prog)}
    for b in r['bad']:
        rb = replay_values(prog, pb['Model'], b['witness'], seed=vlib.seed())
        out['bad'].append({'what': f'layout {lay_name}: ' + '; '.join(b['symbolic'][:3]), 'replayed': bool(rb),
                           'replay': {'text': text, 'witness': b['witness'], 'concrete': rb, 'program_pickle': base64.b64encode(pickle.dumps(prog)).decode()}})
    return out


def main() -> int:
    tier = vlib.tier()
    rep = vlib.Report('C14', 'translation_validation', tier)
    ps = program_set(tier, vlib.seed(), samples_quick=60, samples_thorough=1200)
    rng = random.Random(vlib.seed() + 14)
    pool = ps['fixed'] + ps['verbatim'] + ps['conditional'][:: (5 if tier == 'quick' else 1)] + ps['sampled'] + \
        (rng.sample(ps['exhaustive'], min(len(ps['exhaustive']), 150)) if tier == 'quick' else ps['exhaustive'][::3])
    lay_names = [l.name for l in LAYOUTS]
    if tier == 'quick':
        lay_names = ['plain', 'tight', 'wide', 'zero_index', 'wrapped', 'commented', 'tabs', 'wrapped_calls', 'wrapped_calls_commented', 'glued_comment', 'wrapped_index']
    from gram.enum import fork_nodes
    items = [(p, ln, None) for p in pool for ln in lay_names
             if not (tier == 'quick' and fork_nodes(p) > 1 and ln not in ('plain', 'wide', 'wrapped'))]
    results = run_items(work, items, soft_items=ps['sampled'])
    p0 = (Eq(Var('Y'), Bin('+', Var('X', off=-1), Var('Z'))), Eq(Var('Z'), Var('X')))
    tw = [work((p0, 'wide', 'plus_one')), work((p0, 'plain', 'merge_off'))]
    ps_counts = {'pool': len(pool), 'layouts': lay_names}
    c01_finish(rep, results, tw, {'pool': pool}, tier, extra={
        'layouts': lay_names,
        'program_level_assertions': sum(r.get('program_level', 0) for r in results if 'harness_error' not in r),
        'skipped_ambiguous': sum(1 for r in results if r.get('status') == 'skipped_ambiguous'),
        'rule': 'one case = (program, layout); solver part: every joint path of the generated _evaluate for render(P, layout) against '
                'the layout-independent AST reference over symbolic cells, t, L; program-level part (concrete): symbol tuples across '
                'layouts, statement independence, permutation, fixed point of the normal form',
        'outside_claim': ['programs outside the enumerated/sampled set', 'whitespace between a name and its index bracket (not in the statement)',
                          "scripts where a '<' comparison and a '>' comparison could be read as an <error> term (skipped, counted)",
                          'the symbol-tuple comparisons are concrete assertions, not solver verdicts'],
    })
    return rep.finish()


if __name__ == '__main__':
    sys.exit(main())
