"""Shared harness of the loop family (C02, C06, C04c, C17): one period solve of
a scripted model, real `BaseModel.solve_t` explored symbolically next to the
reference state machine (loopmodel.ref_solve_t), joint path by joint path.

explore_config(cfg) -> dict (picklable): paths, queries, mismatches (replayed),
witness validation results.
"""
from __future__ import annotations

import contextlib
import copy
import math
import random
import time
import warnings
from typing import Any, Dict, List, Optional

import numpy as np
import z3

import fsic
import fsic.core.models as fmodels
import vlib
from loopmodel import NONE, RAISE, WARN, Outcome, Script, check_names, make_scripted, ref_solve_t
from symx.core import Ctx, Inconclusive, PathAbort, cur, timed_check
from symx.npshim import NpShim
from symx.values import SArr, SBool, SFloat, SInt, fpval, model_float, model_int, to_ieee

STATUS_ALPHABET = set('-.FES')

_SHIM = NpShim()


MAX_CANDIDATES = 3  # IEEE confirmations + replays per configuration (further mismatching paths are only counted)


@contextlib.contextmanager
def shimmed():
    old = fmodels.np
    fmodels.np = _SHIM
    try:
        yield
    finally:
        fmodels.np = old


KIND_MAX = [4 if vlib.tier() == 'quick' else 5]   # pmap workers are forked from the check's process: same argv


def default_cfg(**kw) -> dict:
    cfg = dict(
        N=1, B=2, errors='raise', failures='raise', cfe=True, L=3, t=1,
        offset='zero',       # 'zero' | 'sym'
        min_iter='sym',      # 'sym' | int
        tol='sym',           # 'sym' | float
        finite=True,         # assume every check value finite (C02)
        faults=False,        # symbolic fault kinds in evaluation passes
        hook_faults=False,   # symbolic fault kinds in hooks
        with_z=True,
        entry='solve_t',     # 'solve_t' | 'solve_period'
        tracer=None,         # None | True | ['Y0'] | 'Y0'  (C17)
        twin=None,           # falsify the oracle (reachability twin): 'tol_le' | 'iters_off' | 'status_swap'
    )
    cfg.update(kw)
    return cfg


# ---------------------------------------------------------------------------
def _symbolic_inputs(cfg: dict):
    """Create the symbolic inputs of a configuration (names are deterministic, so
    re-execution yields identical terms)."""
    N, L = cfg['N'], cfg['L']
    B = cfg['B'] * (2 if cfg.get('repeat') else 1)   # a second solve of the same period continues the script
    names = check_names(N) + (['Z'] if cfg['with_z'] else []) + [cfg.get('exo_name', 'X')]
    cells = {n: [SFloat(f'{n}_{j}') for j in range(L)] for n in names}
    s = Script(N, B, with_z=cfg['with_z'])
    for p in range(1, B + 1):
        s.v[p] = [SFloat(f'v_{p}_{i}') for i in range(N)]
        s.z[p] = SFloat(f'z_{p}')
        if cfg['faults']:
            s.kind[p] = SInt(f'kind_{p}')
            s.fs[p] = SInt(f'fs_{p}')
    if cfg['hook_faults']:
        s.kb = SInt('kb')
        s.ka = SInt('ka')
    if cfg.get('post_write') and cfg['with_z']:
        s.zpost = SFloat('zpost')
    if cfg.get('pre_write') and N >= 1:
        s.ypre = SFloat('ypre')
    tol = SFloat('tol') if cfg['tol'] == 'sym' else cfg['tol']
    min_iter = SInt('min_iter') if cfg['min_iter'] == 'sym' else cfg['min_iter']
    offset = SInt('offset') if cfg['offset'] == 'sym' else 0
    return names, cells, s, tol, min_iter, offset


def _assume_domain(ctx: Ctx, cfg: dict, names, cells, s: Script, tol, min_iter, offset) -> None:
    N, B, L = cfg['N'], s.B, cfg['L']
    if isinstance(min_iter, SInt):
        ctx.assume(z3.And(min_iter.t >= 0, min_iter.t <= cfg['B'] + 1), f"0 <= min_iter <= max_iter+1 = {cfg['B'] + 1}")
    if isinstance(offset, SInt):
        ctx.assume(z3.And(offset.t >= -L - 1, offset.t <= L + 1), f'-L-1 <= offset <= L+1 (L={L})')
    for p in range(1, B + 1):
        if isinstance(s.kind[p], SInt):
            kmax = KIND_MAX[0] if cfg['B'] <= 2 else 3     # the extra warning categories are crossed with up to two passes
            ctx.assume(z3.And(s.kind[p].t >= 0, s.kind[p].t <= kmax), f'fault kind of pass {p} in {{none,RuntimeWarning,raise,raise SolutionError,UserWarning,DeprecationWarning}}[:{kmax + 1}]')
            ctx.assume(z3.And(s.fs[p].t >= 0, s.fs[p].t <= max(N, 1) - 1), f'fault statement of pass {p} in range')
    if cfg.get('status0') == 'sym':
        ctx.assume(z3.And(z3.Int('status0') >= 0, z3.Int('status0') < len(STATUS_LIST)), f'status of period t before the call in {STATUS_LIST}')
    for h in (s.kb, s.ka):
        if isinstance(h, SInt):
            hmax = 3 if cfg['B'] <= 1 else 2
            ctx.assume(z3.And(h.t >= 0, h.t <= hmax), f'hook fault kind in {{none,RuntimeWarning,raise,UserWarning}}[:{hmax + 1}]')
    if cfg['finite']:
        fin = []
        for n in check_names(N):
            fin += [c.isfinite().t for c in cells[n]]
        for p in range(1, B + 1):
            fin += [v.isfinite().t for v in s.v[p]]
        if isinstance(s.ypre, SFloat):
            fin.append(s.ypre.isfinite().t)
        if fin:
            ctx.assume(z3.And(*fin), 'all check values (pre-existing and per pass) finite [C02 scope]')


def _model_class(cfg: dict):
    S = make_scripted(cfg['N'], with_z=cfg['with_z'], exo_name=cfg.get('exo_name', 'X'))
    if cfg.get('tracer') is None:
        return S
    key = (cfg['N'], cfg['with_z'], cfg.get('exo_name', 'X'))
    if key not in _TRACED:
        from fsic.extensions.model import TracerMixin

        class Traced(TracerMixin, S):
            pass

        _TRACED[key] = Traced
    return _TRACED[key]


_TRACED: dict = {}


def _span(cfg: dict):
    if cfg.get('span_kind') == 'nd':      # NumPy-array span: labels resolve through the fallback locator
        return np.arange(2000, 2000 + cfg['L'])
    if cfg.get('span_kind') == 'str':
        return [f'p{j}' for j in range(cfg['L'])]
    if cfg.get('span_kind') == 'dup':      # repeated labels (legal: positions, not labels, identify periods for solve_t)
        return [2000 + (j % 2) for j in range(cfg['L'])]
    return list(range(2000, 2000 + cfg['L']))


STATUS_LIST = ['-', '.', 'F', 'E', 'S']
ITERS0 = 7   # iteration count a previously solved period carries (any value other than -1)


def _build_model(cfg: dict, cells: Dict[str, list], script: Script, dtype):
    """The model in the state under test.

    Default: constructed on the span, cells written straight into its arrays, status '-' everywhere.
    cfg['stage'] (None | 'rebind' | 'copy' | 'reindex' | 'rebind_copy'): the state is reached through a HISTORY of public calls
    instead -- every period solved once with a scripted, converging model, the read paths exercised, then the object
    copied / reindexed from a wider span and the series under test installed by whole-series assignment (new arrays) or
    in place.  Anything the object remembers from the history (cached arrays, positions, lengths, flags) is then stale.
    cfg['status0'] ('sym' | index into STATUS_LIST | None): status / iteration count of period t before the call."""
    M = _model_class(cfg)
    stage = cfg.get('stage')
    span = _span(cfg)
    if not stage:
        m = M(span, dtype=dtype, **({'strict': True} if cfg.get('strict') else {}))
    else:
        wide = ([span[0] - 1] + span + [span[-1] + 1]) if stage == 'reindex' and span else span
        m = M(wide, dtype=dtype)
        pre = Script(cfg['N'], 2, with_z=cfg['with_z'])
        pre.v[1] = pre.v[2] = [1.0] * cfg['N']
        m.attach(pre)
        with (shimmed() if dtype is object else contextlib.nullcontext()), warnings.catch_warnings():
            warnings.simplefilter('ignore')
            pkw = {'trace': cfg['tracer']} if cfg.get('tracer') not in (None, False) else {}
            for j in range(len(wide)):
                m.solve_t(j, max_iter=2, failures='ignore', errors='ignore', **pkw)
            for n in m.names:       # read paths
                getattr(m, n), m[n], m.eval(n)
                if wide:
                    m[n, wide[0]:], m[n, :wide[-1]], m[n, wide[0]]
            if dtype is not object:
                m.values, m.size
        if stage == 'reindex':
            m = m.reindex(span)
        elif stage in ('copy', 'rebind_copy'):
            m = m.copy()
    for n, vals in cells.items():
        if stage in ('rebind', 'rebind_copy', 'reindex'):
            setattr(m, n, list(vals))          # whole-series assignment: a new array
        else:
            arr = m.__dict__['_' + n]
            for j, v in enumerate(vals):
                arr[j] = v
    if stage and cfg.get('status0') is None:
        m.status = '-'
        m.iterations = -1
    if stage and cfg.get('tracer') is not None:
        from fsic.extensions.model import Trace
        m.__dict__['_trace'] = np.array([Trace([]) for _ in m.span])   # the earlier solves' records are not under test
    s0 = cfg.get('status0')
    if s0 is not None:
        idx = SInt('status0').__index__() if s0 == 'sym' else int(s0)
        m.status[cfg['t']] = STATUS_LIST[idx]
        m.iterations[cfg['t']] = -1 if STATUS_LIST[idx] == '-' else ITERS0
    if cfg.get('extra_var'):
        # a variable added to the INSTANCE after construction (the class lists do not know it)
        m.add_variable('Q', 0.0, dtype=dtype)
        for j in range(cfg['L']):
            m.__dict__['_Q'][j] = 1000.5 + j
    m.attach(script)
    return m


def _call_impl(m, cfg: dict, *, min_iter, tol, offset) -> dict:
    kw = dict(min_iter=min_iter, max_iter=cfg['B'], tol=tol, offset=offset,
              failures=cfg['failures'], errors=cfg['errors'], catch_first_error=cfg['cfe'])
    if cfg.get('tracer') is not None:
        kw['trace'] = cfg['tracer']
    out: Dict[str, Any] = {}
    if cfg.get('trace_prelude') is not None:
        # HISTORY: an earlier traced solve of ANOTHER period, with another selection of variables, that fails (so the
        # post-solution hook never runs); nothing of it may carry over into the call under test
        L = cfg['L']
        other = ((cfg['t'] if cfg['t'] >= 0 else cfg['t'] + L) + 1) % L
        psc = Script(cfg['N'], 1, with_z=cfg['with_z'])
        psc.v[1] = [123.0] * cfg['N']
        st = m._script_state()
        st['scripts'][other] = psc
        pk: Dict[str, Any] = dict(max_iter=1, tol=-1.0, failures='ignore', errors='ignore')
        if cfg.get('tracer') is not None:
            pk['trace'] = cfg['trace_prelude'] if cfg['tracer'] is not False else False
        with warnings.catch_warnings():
            warnings.simplefilter('ignore')
            m.solve_t(other, **pk)
        st['log'].clear()
        st['tlog'].clear()
        st['snaps'].clear()
    try:
        with warnings.catch_warnings():
            warnings.simplefilter('ignore')
            for _call in range(2 if cfg.get('repeat') else 1):
                m._script_state()['log'].append(('call', None))
                if cfg['entry'] == 'solve_period':
                    lab = _span(cfg)[cfg['t']]
                    r = m.solve_period(int(lab) if cfg.get('span_kind') == 'nd' else lab, **kw)
                else:
                    r = m.solve_t(cfg['t'], **kw)
        out.update(kind='ret', ret=r, exc=None, cause=None)
    except Exception as e:  # noqa: BLE001 - PathAbort/Inconclusive are BaseException
        out.update(kind='exc', ret=None, exc=type(e).__name__,
                   cause=type(e.__cause__).__name__ if e.__cause__ is not None else None,
                   msg=str(e)[:200])
    st = m._script_state()
    t = cfg['t']
    out['status'] = str(m.status[t])
    out['iters'] = int(m.iterations[t])
    out['n_eval'] = sum(1 for k, _ in st['log'] if k == 'eval')
    out['eval_iters'] = [i for k, i in st['log'] if k == 'eval']
    out['pre_calls'] = [i for k, i in st['log'] if k == 'before']
    out['post_calls'] = [i for k, i in st['log'] if k == 'after']
    out['log_order'] = [k for k, _ in st['log'] if not k.endswith('_done') and k != 'call']
    out['events'] = list(st['log'])
    out['status_all'] = [str(x) for x in m.status]
    out['iters_all'] = [int(x) for x in m.iterations]
    return out


def _compare(cfg: dict, impl: dict, ref: Outcome, status0: List[str], iters0: List[int]) -> List[str]:
    """Concrete part of the comparison (cells are compared separately)."""
    bad: List[str] = []
    t, L, B = cfg['t'], cfg['L'], cfg['B']
    tc = t if t >= 0 else t + L
    # invariants that hold for every policy, valid or not
    for s_ in impl['status_all']:
        if s_ not in STATUS_ALPHABET:
            bad.append(f'status {s_!r} outside alphabet')
    if impl['kind'] == 'ret' and (impl['ret'] is True) != (impl['status'] == '.'):
        bad.append(f"solved flag {impl['ret']} but status {impl['status']!r}")
    for j in range(L):
        if j != tc and (impl['status_all'][j] != status0[j] or impl['iters_all'][j] != iters0[j]):
            bad.append(f'status/iterations changed at position {j} != t')
    if ref.kind == 'any':
        return bad
    if impl['kind'] != ref.kind:
        bad.append(f"outcome kind impl={impl['kind']}({impl['exc']}) ref={ref.kind}({ref.exc})")
    elif ref.kind == 'ret' and impl['ret'] != ref.ret:
        bad.append(f"return impl={impl['ret']} ref={ref.ret}")
    elif ref.kind == 'exc':
        if impl['exc'] != ref.exc:
            bad.append(f"exception impl={impl['exc']} ref={ref.exc}")
        elif ref.exc == 'SolutionError' and ref.cause is not None and impl['cause'] != ref.cause:
            bad.append(f"SolutionError cause impl={impl['cause']} ref={ref.cause}")
    if ref.status is not None and impl['status'] != ref.status:
        bad.append(f"status[t] impl={impl['status']!r} ref={ref.status!r}")
    if ref.iters is not None and impl['iters'] != ref.iters:
        bad.append(f"iterations[t] impl={impl['iters']} ref={ref.iters}")
    if ref.n_eval is not None and impl['n_eval'] != ref.n_eval:
        bad.append(f"evaluation passes impl={impl['n_eval']} ref={ref.n_eval}")
    if impl['eval_iters'] != list(range(1, impl['n_eval'] + 1)):
        bad.append(f"iteration keyword of passes {impl['eval_iters']}")
    if B >= 1 and ref.pre_calls is not None and impl['pre_calls'] != ref.pre_calls:
        bad.append(f"pre-hook calls impl={impl['pre_calls']} ref={ref.pre_calls}")
    if ref.post_calls is not None and impl['post_calls'] != ref.post_calls:
        bad.append(f"post-hook calls impl={impl['post_calls']} ref={ref.post_calls}")
    if impl['log_order'] and impl['log_order'][0] != 'before':
        bad.append('a pass ran before the pre-hook')
    if 'after' in impl['log_order'] and impl['log_order'][-1] != 'after':
        bad.append('something ran after the post-hook')
    return bad


def _falsify(ref: Outcome, twin: str) -> None:
    """Reachability twin: deliberately wrong oracle."""
    if twin == 'iters_off' and ref.iters is not None and ref.status == '.':
        ref.iters += 1
    elif twin == 'status_swap' and ref.status in ('F', 'S'):
        ref.status = {'F': 'S', 'S': 'F'}[ref.status]
    elif twin == 'exc_swap' and ref.kind == 'exc' and ref.exc == 'SolutionError':
        ref.exc = 'NonConvergenceError'


# ---------------------------------------------------------------------------
def explore_config(cfg: dict) -> dict:
    """Explore every joint path of (implementation, reference) for `cfg`."""
    t_start = time.time()
    ctx = Ctx(budget_s=cfg.get('budget_s', 600))
    names, cells0, script, tol, min_iter, offset = _symbolic_inputs(cfg)
    _assume_domain(ctx, cfg, names, cells0, script, tol, min_iter, offset)
    L, t = cfg['L'], cfg['t']
    twin = cfg.get('twin')

    def fn():
        # fresh objects per execution (terms are identical by name)
        names_, cells, s, tol_, min_iter_, offset_ = _symbolic_inputs(cfg)
        m = _build_model(cfg, cells, s, dtype=object)
        status0 = [str(x) for x in m.status]
        iters0 = [int(x) for x in m.iterations]
        with shimmed():
            impl = _call_impl(m, cfg, min_iter=min_iter_, tol=tol_, offset=offset_)
        impl_cells = {n: list(m.__dict__['_' + n]) for n in names_}
        # reference on its own copy of the initial cells
        _, rcells, rs, rtol, rmin, roff = _symbolic_inputs(cfg)
        tc0 = t if t >= 0 else t + L
        if twin == 'tol_le':
            ref = ref_solve_t(rcells, status0[tc0], iters0[tc0], rs, t=t, L=L, min_iter=rmin, max_iter=cfg['B'],
                              tol=_LeTol(rtol), offset=roff, failures=cfg['failures'], errors=cfg['errors'],
                              cfe=cfg['cfe'], endogenous=m.endogenous, check=m.check)
        else:
            ref = ref_solve_t(rcells, status0[tc0], iters0[tc0], rs, t=t, L=L, min_iter=rmin, max_iter=cfg['B'], tol=rtol,
                              offset=roff, failures=cfg['failures'], errors=cfg['errors'], cfe=cfg['cfe'],
                              endogenous=m.endogenous, check=m.check)
        if twin and twin != 'tol_le':
            _falsify(ref, twin)
        bad = _compare(cfg, impl, ref, status0, iters0)
        # cells: every cell of every series, z3 equality under the path condition
        cell_bad = []
        c = cur()
        frame_only = ref.kind == 'any'
        tc = t if t >= 0 else t + L
        for n in names_:
            for j in range(L):
                a, b = impl_cells[n][j], ref.cells[n][j]
                if frame_only and j == tc and n in m.endogenous:
                    continue
                at = a.t if isinstance(a, SFloat) else fpval(float(a))
                bt = b.t if isinstance(b, SFloat) else fpval(float(b))
                if at.eq(bt):
                    continue
                if c._check(at != bt) == 'sat':
                    cell_bad.append((n, j, at, bt))
        return {'impl': impl, 'ref': ref, 'bad': bad, 'cell_bad': cell_bad}

    res: Dict[str, Any] = {'cfg': _cfg_public(cfg), 'paths': 0, 'mismatch_paths': 0, 'candidates': [],
                           'outcomes': {}, 'witness_checked': 0, 'witness_bad': [], 'spurious_under_uf': 0}
    rng = random.Random(cfg.get('seed', 0))
    witness_rate = cfg.get('witness_rate', 0.0)
    for path in ctx.explore(fn):
        res['paths'] += 1
        rec = path.outcome
        if rec[0] == 'exc':
            raise RuntimeError(f'harness raised on a path: {rec[1]!r}')
        r = rec[1]
        impl, ref = r['impl'], r['ref']
        okey = f"{impl['kind']}:{impl['exc'] or impl['ret']}:{impl['status']}:{impl['iters']}"
        res['outcomes'][okey] = res['outcomes'].get(okey, 0) + 1
        if impl['n_eval'] >= 1:
            res['nontrivial_paths'] = res.get('nontrivial_paths', 0) + 1
        if r['bad'] or r['cell_bad']:
            res['mismatch_paths'] += 1
            if len(res['candidates']) + res['spurious_under_uf'] >= MAX_CANDIDATES:
                continue
            extra = []
            if not r['bad'] and r['cell_bad']:
                extra = [z3.Or(*[a != b for (_, _, a, b) in r['cell_bad']])]
            inputs = _ieee_witness(ctx, path, cfg, extra)
            if inputs is None:
                res['spurious_under_uf'] += 1
                continue
            rep = replay_concrete(cfg, inputs)
            desc = r['bad'] + [f'cell {n}[{j}] differs' for (n, j, _, _) in r['cell_bad']]
            res['candidates'].append({'symbolic': desc, 'inputs': inputs, 'replay': rep,
                                      'impl': _pub(impl), 'ref': ref.as_dict()})
        elif witness_rate and rng.random() < witness_rate:
            inputs = _ieee_witness(ctx, path, cfg, [], soft=True)
            if inputs is not None:
                rep = replay_concrete(cfg, inputs)
                res['witness_checked'] += 1
                ci = rep['impl']
                same = all(ci[k] == impl[k] for k in ('kind', 'ret', 'exc', 'status', 'iters', 'n_eval', 'pre_calls', 'post_calls'))
                if not same or rep['bad']:
                    res['witness_bad'].append({'inputs': inputs, 'symbolic_impl': _pub(impl), 'concrete_impl': _pub(ci),
                                               'concrete_bad': rep['bad']})
    res['exhausted'] = ctx.exhausted
    res['smt_samples'] = list(ctx.samples)
    res['stats'] = ctx.stats.as_dict()
    res['assumptions'] = list(ctx.assumptions)
    res['shim_calls'] = dict(_SHIM.calls)
    res['wall_s'] = round(time.time() - t_start, 3)
    return res


class _LeTol:
    """tol stand-in whose comparison is <= instead of < (reachability twin)."""

    __array_ufunc__ = None

    def __init__(self, tol):
        self.tol = tol

    def __gt__(self, other):  # abs(diff) < tol  ->  tol.__gt__(abs(diff))
        return other <= self.tol


def _pub(impl: dict) -> dict:
    return {k: v for k, v in impl.items() if k in ('kind', 'ret', 'exc', 'cause', 'status', 'iters', 'n_eval',
                                                    'pre_calls', 'post_calls', 'msg')}


def _cfg_public(cfg: dict) -> dict:
    return {k: v for k, v in cfg.items() if k not in ('budget_s',)}


# ---------------------------------------------------------------------------
def _input_terms(cfg: dict):
    names, cells, s, tol, min_iter, offset = _symbolic_inputs(cfg)
    return names, cells, s, tol, min_iter, offset


def _ieee_witness(ctx: Ctx, path, cfg: dict, extra: list, soft: bool = False) -> Optional[dict]:
    """Concrete inputs satisfying the path condition under IEEE-754 arithmetic
    (None if the path is an artefact of the uninterpreted abstraction)."""
    s = z3.Solver()
    s.set('timeout', 60000)
    cache: dict = {}
    for a in ctx.solver.assertions():
        s.add(to_ieee(a, cache))
    for e in extra:
        s.add(to_ieee(e, cache))
    t0 = time.time()
    r = timed_check(s, 30.0)
    ctx.stats.solver_s += time.time() - t0
    ctx.stats.queries[r] = ctx.stats.queries.get(r, 0) + 1
    if r == 'unsat':
        return None
    if r != 'sat':
        if soft:
            return None   # a sampled path witness that z3 cannot produce in time is skipped, not a verdict
        raise Inconclusive('IEEE confirmation query returned ' + r)
    m = s.model()
    names, cells, sc, tol, min_iter, offset = _input_terms(cfg)
    inp: Dict[str, Any] = {'cells': {n: [model_float(m, c.t) for c in cells[n]] for n in names}}
    inp['v'] = [[model_float(m, x.t) if isinstance(x, SFloat) else float(x) for x in sc.v[p]] for p in range(sc.B + 1)]
    inp['z'] = [model_float(m, sc.z[p].t) if isinstance(sc.z[p], SFloat) else 0.0 for p in range(sc.B + 1)]
    inp['kind'] = [model_int(m, k.t) if isinstance(k, SInt) else int(k) for k in sc.kind]
    inp['fs'] = [model_int(m, k.t) if isinstance(k, SInt) else int(k) for k in sc.fs]
    inp['kb'] = model_int(m, sc.kb.t) if isinstance(sc.kb, SInt) else int(sc.kb)
    inp['ka'] = model_int(m, sc.ka.t) if isinstance(sc.ka, SInt) else int(sc.ka)
    inp['zpost'] = model_float(m, sc.zpost.t) if isinstance(sc.zpost, SFloat) else None
    inp['ypre'] = model_float(m, sc.ypre.t) if isinstance(sc.ypre, SFloat) else None
    inp['tol'] = model_float(m, tol.t) if isinstance(tol, SFloat) else tol
    inp['min_iter'] = model_int(m, min_iter.t) if isinstance(min_iter, SInt) else min_iter
    inp['offset'] = model_int(m, offset.t) if isinstance(offset, SInt) else offset
    if cfg.get('status0') == 'sym':
        inp['status0'] = model_int(m, z3.Int('status0'))
    return inp


def _concrete_script(cfg: dict, inp: dict) -> Script:
    s = Script(cfg['N'], cfg['B'] * (2 if cfg.get('repeat') else 1), with_z=cfg['with_z'])
    s.v = [list(map(np.float64, row)) for row in inp['v']]
    s.z = [np.float64(x) for x in inp['z']]
    s.kind = list(inp['kind'])
    s.fs = list(inp['fs'])
    s.kb, s.ka = inp['kb'], inp['ka']
    if inp.get('zpost') is not None:
        s.zpost = np.float64(inp['zpost'])
    if inp.get('ypre') is not None:
        s.ypre = np.float64(inp['ypre'])
    return s


def replay_concrete(cfg: dict, inp: dict) -> dict:
    """Run the same scenario on the unshimmed implementation with real float64
    arrays and compare with the reference evaluated on plain floats."""
    cells = {n: [np.float64(x) for x in vals] for n, vals in inp['cells'].items()}
    if 'status0' in inp:
        cfg = dict(cfg, status0=inp['status0'])
    m = _build_model(cfg, cells, _concrete_script(cfg, inp), dtype=float)
    status0 = [str(x) for x in m.status]
    iters0 = [int(x) for x in m.iterations]
    tc0 = cfg['t'] if cfg['t'] >= 0 else cfg['t'] + cfg['L']
    assert fmodels.np is np, 'replay must run unshimmed'
    impl = _call_impl(m, cfg, min_iter=inp['min_iter'], tol=inp['tol'], offset=inp['offset'])
    rcells = {n: [np.float64(x) for x in vals] for n, vals in inp['cells'].items()}
    with np.errstate(all='ignore'):
        ref = ref_solve_t(rcells, status0[tc0], iters0[tc0], _concrete_script(cfg, inp), t=cfg['t'], L=cfg['L'],
                          min_iter=inp['min_iter'], max_iter=cfg['B'],
                          tol=_LeTol(inp['tol']) if cfg.get('twin') == 'tol_le' else inp['tol'], offset=inp['offset'],
                          failures=cfg['failures'], errors=cfg['errors'], cfe=cfg['cfe'],
                          endogenous=m.endogenous, check=m.check)
    twin = cfg.get('twin')
    if twin and twin != 'tol_le':
        _falsify(ref, twin)
    bad = _compare(cfg, impl, ref, status0, iters0)
    t, L = cfg['t'], cfg['L']
    tc = t if t >= 0 else t + L
    frame_only = ref.kind == 'any'
    for n in inp['cells']:
        arr = m.__dict__['_' + n]
        for j in range(L):
            if frame_only and j == tc and n in m.endogenous:
                continue
            a, b = float(arr[j]), float(ref.cells[n][j])
            if not _same_bits(a, b):
                bad.append(f'cell {n}[{j}] impl={a!r} ref={b!r}')
    return {'impl': impl, 'ref': ref.as_dict(), 'bad': bad}


def _same_bits(a: float, b: float) -> bool:
    if math.isnan(a) or math.isnan(b):
        return math.isnan(a) and math.isnan(b)
    return a == b and math.copysign(1.0, a) == math.copysign(1.0, b)
