"""symx.npshim -- stand-in for the `np` module global of an fsic module.

Installed from the harness process by assignment (e.g.
`fsic.core.models.np = NpShim()`); nothing in /repo is edited.  Every attribute
is forwarded to real NumPy; only calls whose arguments contain symx proxies are
intercepted.  Each intercepted call is counted (`calls`), so the evidence can
show which stand-ins a claim rests on.
"""
from __future__ import annotations

import numpy as _np
import z3

from .values import SArr, SBool, SFloat, SInt, contains_proxy, is_proxy, _sf


class NpShim:
    def __init__(self) -> None:
        self.calls: dict = {}

    def _count(self, name: str) -> None:
        self.calls[name] = self.calls.get(name, 0) + 1

    def __getattr__(self, name: str):
        return getattr(_np, name)

    # -- constructors -----------------------------------------------------
    def array(self, obj, *a, **k):
        if isinstance(obj, SArr):
            self._count('array')
            return obj.copy()
        if isinstance(obj, (list, tuple)) and obj and any(is_proxy(x) for x in obj):
            self._count('array')
            if all(isinstance(x, SBool) for x in obj):
                return SArr(obj, 'b')
            return SArr(obj)
        return _np.array(obj, *a, **k)

    # -- predicates ---------------------------------------------------------
    def isfinite(self, x, *a, **k):
        if isinstance(x, SArr):
            self._count('isfinite')
            return x.isfinite()
        if isinstance(x, SFloat):
            self._count('isfinite')
            return x.isfinite()
        if isinstance(x, _np.ndarray) and x.dtype == object:
            self._count('isfinite')
            return SArr([_sf(v).isfinite() for v in x], 'b')
        return _np.isfinite(x, *a, **k)

    def any(self, x, *a, **k):
        if isinstance(x, SArr):
            self._count('any')
            return x.any()
        if isinstance(x, SBool):
            return x
        return _np.any(x, *a, **k)

    def all(self, x, *a, **k):
        if isinstance(x, SArr):
            self._count('all')
            return x.all()
        if isinstance(x, SBool):
            return x
        return _np.all(x, *a, **k)

    def abs(self, x, *a, **k):
        if isinstance(x, (SArr, SFloat)):
            self._count('abs')
            return abs(x)
        return _np.abs(x, *a, **k)

    absolute = abs

    def exp(self, x, *a, **k):
        if isinstance(x, SFloat):
            return x.exp()
        return _np.exp(x, *a, **k)

    def log(self, x, *a, **k):
        if isinstance(x, SFloat):
            return x.log()
        return _np.log(x, *a, **k)

    def sqrt(self, x, *a, **k):
        if isinstance(x, SFloat):
            return x.sqrt()
        return _np.sqrt(x, *a, **k)

    def roll(self, x, shift, *a, **k):
        """np.roll on a proxy vector: result[i] = x[(i - shift) mod n]."""
        if isinstance(x, SArr):
            self._count('roll')
            n = len(x)
            if n == 0:
                return x.copy()
            if isinstance(shift, SInt):
                pm = shift.t % n  # z3 mod with a positive modulus is non-negative, as Python's
                items = []
                for i in range(n):
                    t = x.items[(i - (n - 1)) % n].t
                    for r in range(n - 2, -1, -1):
                        t = z3.If(pm == r, x.items[(i - r) % n].t, t)
                    items.append(SFloat(t))
                return SArr(items)
            sh = int(shift) % n
            return SArr([x.items[(i - sh) % n] for i in range(n)])
        return _np.roll(x, shift, *a, **k)
