"""symx.npshim -- stand-in for the `np` module global of an fsic module.

Installed from the harness process by assignment (e.g.
`fsic.core.models.np = NpShim()`); nothing in /repo is edited.  Every attribute
is forwarded to real NumPy; only calls whose arguments contain symx proxies are
intercepted.  Each intercepted call is counted (`calls`), so the evidence can
show which stand-ins a claim rests on.
"""
from __future__ import annotations

import numpy as _np
import z3

from .values import SArr, SBool, SFloat, SInt, contains_proxy, is_proxy, _sf


class NpShim:
    def __init__(self) -> None:
        self.calls: dict = {}

    def _count(self, name: str) -> None:
        self.calls[name] = self.calls.get(name, 0) + 1

    def __getattr__(self, name: str):
        return getattr(_np, name)

    # -- floating-point error state: kept in step between real NumPy and the proxies' model of it ---------------
    def seterr(self, all=None, divide=None, over=None, under=None, invalid=None):
        from . import values as _sv
        self._count('seterr')
        old = dict(_sv.ERRSTATE)
        for k, v in (('divide', divide), ('over', over), ('under', under), ('invalid', invalid)):
            v = v if v is not None else all
            if v is not None:
                _sv.ERRSTATE[k] = v if v in ('ignore', 'raise') else 'warn'
        _np.seterr(all=all, divide=divide, over=over, under=under, invalid=invalid)
        return old

    def geterr(self):
        from . import values as _sv
        return dict(_sv.ERRSTATE)

    def errstate(self, **kw):
        import contextlib
        shim = self

        @contextlib.contextmanager
        def cm():
            old = shim.seterr(**kw)
            try:
                yield
            finally:
                shim.seterr(**old)
        return cm()

    # -- constructors -----------------------------------------------------
    def array(self, obj, *a, **k):
        if isinstance(obj, SArr):
            self._count('array')
            return obj.copy()
        if isinstance(obj, (list, tuple)) and obj and any(is_proxy(x) for x in obj):
            self._count('array')
            if all(isinstance(x, SBool) for x in obj):
                return SArr(obj, 'b')
            return SArr(obj)
        return _np.array(obj, *a, **k)

    # -- predicates ---------------------------------------------------------
    def isfinite(self, x, *a, **k):
        if isinstance(x, SArr):
            self._count('isfinite')
            return x.isfinite()
        if isinstance(x, SFloat):
            self._count('isfinite')
            return x.isfinite()
        if isinstance(x, _np.ndarray) and x.dtype == object:
            self._count('isfinite')
            return SArr([_sf(v).isfinite() for v in x], 'b')
        return _np.isfinite(x, *a, **k)

    def any(self, x, *a, **k):
        if isinstance(x, SArr):
            self._count('any')
            return x.any()
        if isinstance(x, SBool):
            return x
        return _np.any(x, *a, **k)

    def all(self, x, *a, **k):
        if isinstance(x, SArr):
            self._count('all')
            return x.all()
        if isinstance(x, SBool):
            return x
        return _np.all(x, *a, **k)

    def abs(self, x, *a, **k):
        if isinstance(x, (SArr, SFloat)):
            self._count('abs')
            return abs(x)
        return _np.abs(x, *a, **k)

    absolute = abs

    def exp(self, x, *a, **k):
        if isinstance(x, SFloat):
            return x.exp()
        return _np.exp(x, *a, **k)

    def log(self, x, *a, **k):
        if isinstance(x, SFloat):
            return x.log()
        return _np.log(x, *a, **k)

    def sqrt(self, x, *a, **k):
        if isinstance(x, SFloat):
            return x.sqrt()
        return _np.sqrt(x, *a, **k)

    def roll(self, x, shift, *a, **k):
        """np.roll on a proxy vector: result[i] = x[(i - shift) mod n]."""
        if isinstance(x, SArr):
            self._count('roll')
            n = len(x)
            if n == 0:
                return x.copy()
            if isinstance(shift, SInt):
                pm = shift.t % n  # z3 mod with a positive modulus is non-negative, as Python's
                items = []
                for i in range(n):
                    t = x.items[(i - (n - 1)) % n].t
                    for r in range(n - 2, -1, -1):
                        t = z3.If(pm == r, x.items[(i - r) % n].t, t)
                    items.append(SFloat(t))
                return SArr(items)
            sh = int(shift) % n
            return SArr([x.items[(i - sh) % n] for i in range(n)])
        return _np.roll(x, shift, *a, **k)

    # -- further reductions / predicates a (changed) solver loop may reasonably use ---------------------------
    def isnan(self, x, *a, **k):
        if isinstance(x, SArr):
            self._count('isnan')
            return SArr([v.isnan() for v in x.items], 'b')
        if isinstance(x, SFloat):
            return x.isnan()
        return _np.isnan(x, *a, **k)

    def isinf(self, x, *a, **k):
        if isinstance(x, SArr):
            self._count('isinf')
            return SArr([SBool(z3.fpIsInf(v.t)) for v in x.items], 'b')
        if isinstance(x, SFloat):
            return SBool(z3.fpIsInf(x.t))
        return _np.isinf(x, *a, **k)

    def isclose(self, a, b, rtol=1e-05, atol=1e-08, equal_nan=False):
        if isinstance(a, (SArr, SFloat)) or isinstance(b, (SArr, SFloat)):
            self._count('isclose')
            A = a if isinstance(a, SArr) else SArr([a] * (len(b) if isinstance(b, SArr) else 1))
            Bv = A._zip(b)
            out = []
            for x, y in zip(A.items, Bv):
                y = _sf(y)
                bound = _sf(atol) if rtol == 0 else _sf(atol) + _sf(rtol) * abs(y)
                near = (abs(x - y) <= bound) & x.isfinite() & y.isfinite()
                same_inf = SBool(z3.And(z3.fpIsInf(x.t), z3.fpIsInf(y.t), z3.fpEQ(x.t, y.t)))
                res = near | same_inf
                if equal_nan:
                    res = res | (x.isnan() & y.isnan())
                out.append(res)
            return SArr(out, 'b')
        return _np.isclose(a, b, rtol=rtol, atol=atol, equal_nan=equal_nan)

    def allclose(self, a, b, rtol=1e-05, atol=1e-08, equal_nan=False):
        if isinstance(a, (SArr, SFloat)) or isinstance(b, (SArr, SFloat)):
            return self.isclose(a, b, rtol=rtol, atol=atol, equal_nan=equal_nan).all()
        return _np.allclose(a, b, rtol=rtol, atol=atol, equal_nan=equal_nan)

    # -- element-wise comparisons and selection on proxy vectors ---------------------------------------------------
    def _cmp(self, name, a, b):
        import operator
        op = {'greater': operator.gt, 'less': operator.lt, 'greater_equal': operator.ge, 'less_equal': operator.le,
              'equal': operator.eq, 'not_equal': operator.ne}[name]
        if isinstance(a, SArr) or isinstance(b, SArr):
            self._count(name)
            n = len(a) if isinstance(a, SArr) else len(b)
            xs = a.items if isinstance(a, SArr) else [a] * n
            ys = b.items if isinstance(b, SArr) else [b] * n
            return SArr([op(x, y) for x, y in zip(xs, ys)], 'b')
        if is_proxy(a) or is_proxy(b):
            self._count(name)
            return op(a, b)
        return getattr(_np, name)(a, b)

    def greater(self, a, b, *args, **k):
        return self._cmp('greater', a, b)

    def less(self, a, b, *args, **k):
        return self._cmp('less', a, b)

    def greater_equal(self, a, b, *args, **k):
        return self._cmp('greater_equal', a, b)

    def less_equal(self, a, b, *args, **k):
        return self._cmp('less_equal', a, b)

    def where(self, cond, x=None, y=None):
        if x is None and y is None:
            return _np.where(cond)
        if isinstance(cond, SArr) or isinstance(x, SArr) or isinstance(y, SArr):
            import z3 as _z3
            from .values import SBool as _SB, _sf as __sf
            self._count('where')
            n = max(len(v) for v in (cond, x, y) if isinstance(v, SArr))
            cs = cond.items if isinstance(cond, SArr) else [cond] * n
            xs = x.items if isinstance(x, SArr) else [x] * n
            ys = y.items if isinstance(y, SArr) else [y] * n
            out = []
            for c, u, v in zip(cs, xs, ys):
                if isinstance(c, _SB):
                    out.append(SFloat(_z3.If(c.t, __sf(u).t, __sf(v).t)))
                else:
                    out.append(u if bool(c) else v)
            return SArr(out)
        return _np.where(cond, x, y)

    def _fold(self, x, pick):
        items = list(x.items)
        if not items:
            raise ValueError('zero-size array to reduction operation which has no identity')
        acc = items[0]
        for v in items[1:]:
            acc = pick(acc, v)
        return acc

    def max(self, x, *a, **k):
        if isinstance(x, SArr):
            self._count('max')
            from .values import _np_maximum
            return self._fold(x, _np_maximum)
        return _np.max(x, *a, **k)

    amax = max

    def min(self, x, *a, **k):
        if isinstance(x, SArr):
            self._count('min')
            from .values import _np_minimum
            return self._fold(x, _np_minimum)
        return _np.min(x, *a, **k)

    amin = min
