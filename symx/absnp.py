"""symx.absnp -- abstract ndarray for shape reasoning (C09 only).

An `AbsArr` is (rank in {0,1,2}, dims: tuple of z3 Int terms, dtype tag,
content token).  `AbsNp` is a stand-in for the `np` global of
fsic.core.containers / fsic.core.interfaces implementing exactly the
operations those modules apply to operands: np.array(seq, dtype=),
.flatten(), np.full(n, v, dtype=), .astype, .shape, .ndim, .dtype,
x[:] = v, x[i] = v, x[a:b:s] = v -- with NumPy's broadcasting and cast-failure
rules for the operand family of the property.  `validate_against_numpy()`
compares every rule with real NumPy on the full grid of concrete shapes with
dims 0..4; any disagreement is a harness error.
"""
from __future__ import annotations

import itertools
from collections.abc import Sequence
from typing import Any, List, Optional, Tuple

import numpy as _np
import z3

from .core import cur, have_ctx
from .values import SBool, SInt

KINDS = ('float', 'int', 'bool', 'str')
_NP = {'float': float, 'int': int, 'bool': bool, 'str': '<U3'}
# exact dtype tags (family + width): the invariant is about the dtype a series was created with, not just its family
TAGS = {'float64': 'float', 'float32': 'float', 'int64': 'int', 'int8': 'int', 'bool': 'bool', 'U3': 'str', 'U1': 'str'}
DEFAULT_TAG = {'float': 'float64', 'int': 'int64', 'bool': 'bool', 'str': 'U3'}
NP_OF_TAG = {'float64': _np.float64, 'float32': _np.float32, 'int64': _np.int64, 'int8': _np.int8, 'bool': _np.bool_, 'U3': '<U3', 'U1': '<U1'}
_NPCHAR = {'float': 'f', 'int': 'i', 'bool': 'b', 'str': 'U'}


def tag_of_dtype(dt: Any) -> str:
    """Exact tag for a real NumPy dtype / Python type / AbsDtype / family name."""
    if isinstance(dt, AbsDtype):
        return dt.tag
    if isinstance(dt, str) and dt in TAGS:
        return dt
    if isinstance(dt, str) and dt in KINDS:
        return DEFAULT_TAG[dt]
    d = _np.dtype(dt)
    if d.kind == 'U':
        return 'U1' if d.itemsize <= 4 else 'U3'
    name = d.name
    if name in TAGS:
        return name
    if d.kind == 'f':
        return 'float32' if d.itemsize < 8 else 'float64'
    if d.kind in 'iu':
        return 'int8' if d.itemsize < 8 else 'int64'
    if d.kind == 'b':
        return 'bool'
    raise TypeError(f'absnp: dtype {dt!r} not modelled')


def kind_of_dtype(dt: Any) -> str:
    if isinstance(dt, str) and dt in KINDS:
        return dt
    if isinstance(dt, AbsDtype):
        return dt.family
    if isinstance(dt, str) and dt in TAGS:
        return TAGS[dt]
    d = _np.dtype(dt)
    if d.kind == 'f':
        return 'float'
    if d.kind in 'iu':
        return 'int'
    if d.kind == 'b':
        return 'bool'
    if d.kind in 'US':
        return 'str'
    raise TypeError(f'absnp: dtype {dt!r} not modelled')


def can_cast(src: str, dst: str) -> bool:
    """Value-level cast of our marker elements (numbers / the string 'ab'): does NumPy accept it?"""
    if src == dst:
        return True
    if src == 'str':
        return dst in ('str', 'bool')   # 'ab' -> float/int raises; -> bool is truthiness
    return True                         # float/int/bool -> anything incl. str


def _iv(x: Any):
    if isinstance(x, SInt):
        return x.t
    if isinstance(x, int):
        return z3.IntVal(x)
    return x


class AbsDtype:
    """Mimics the attributes of numpy.dtype that container code may look at."""

    def __init__(self, tag: str) -> None:
        self.tag = tag if tag in TAGS else DEFAULT_TAG[tag]
        self.family = TAGS[self.tag]

    @property
    def kind(self) -> str:      # numpy's one-letter kind code
        return _NPCHAR[self.family]

    @property
    def itemsize(self) -> int:
        return _np.dtype(NP_OF_TAG[self.tag]).itemsize

    @property
    def name(self) -> str:
        return self.tag

    def __eq__(self, o):
        if isinstance(o, AbsDtype):
            return o.tag == self.tag
        try:
            return tag_of_dtype(o) == self.tag
        except TypeError:
            return False

    def __ne__(self, o):
        return not self.__eq__(o)

    def __hash__(self):
        return hash(self.tag)

    def __repr__(self):
        return f'dtype({self.tag})'


LEN_CAP = 8


def _len_of(dim) -> int:
    """`len()` must hand Python a concrete int.  A dimension that the path condition already bounds is enumerated
    (one path per value); an unbounded one is split into the lengths 0..LEN_CAP, one path each, and a single
    representative LEN_CAP+1 for everything longer -- recorded as a narrowing of that path's claim."""
    d = z3.simplify(dim) if not isinstance(dim, int) else dim
    if isinstance(d, int):
        return d
    if z3.is_int_value(d):
        return d.as_long()
    c = cur()
    if c.branch(d <= LEN_CAP):
        return c.concretize(d)
    note = f'len() taken of an abstract operand: lengths above {LEN_CAP} are represented by {LEN_CAP + 1} on that path'
    if note not in c.assumptions:
        c.assumptions.append(note)
    c.require(d == LEN_CAP + 1)
    return LEN_CAP + 1



class AbsArr:
    """Abstract array.  dims are z3 Int terms (possibly numerals)."""

    _tok = 0

    def __init__(self, dims: Tuple[Any, ...], kind: str, token: Optional[str] = None) -> None:
        self.dims = tuple(_iv(d) for d in dims)
        self.tag = kind if kind in TAGS else DEFAULT_TAG[kind]
        self.kind = TAGS[self.tag]          # family, drives the cast rules
        AbsArr._tok += 1
        self.token = token or f'arr{AbsArr._tok}'
        self.writes: List[str] = []

    # NumPy surface ------------------------------------------------------------------
    @property
    def ndim(self) -> int:
        return len(self.dims)

    @property
    def shape(self):
        return tuple(SInt(d) for d in self.dims)

    @property
    def dtype(self):
        return AbsDtype(self.tag)

    @property
    def nbytes(self):
        return 0

    def flatten(self) -> 'AbsArr':
        if self.ndim == 0:
            return AbsArr((1,), self.tag)
        n = self.dims[0]
        for d in self.dims[1:]:
            n = n * d
        return AbsArr((n,), self.tag)

    def astype(self, dt: Any) -> 'AbsArr':
        tag = tag_of_dtype(dt)
        k = TAGS[tag]
        if not can_cast(self.kind, k):
            # an empty array casts fine; otherwise ValueError
            if self._is_empty():
                return AbsArr(self.dims, tag)
            raise ValueError(f'could not convert {self.kind} to {k}')
        return AbsArr(self.dims, tag)

    def copy(self) -> 'AbsArr':
        a = AbsArr(self.dims, self.tag, self.token)
        a.writes = list(self.writes)
        return a

    def __deepcopy__(self, memo):
        return self.copy()

    def _is_empty(self) -> bool:
        c = cur()
        size = z3.IntVal(1)
        for d in self.dims:
            size = size * d
        return c.branch(size == 0)

    def __len__(self):
        if self.ndim == 0:
            raise TypeError('len() of unsized object')
        return _len_of(self.dims[0])

    def __iter__(self):
        """Rows of a 2-D array / elements are not enumerable symbolically: only used by `zip(names, new_values)`."""
        if self.ndim != 2:
            raise TypeError('absnp: iteration only modelled for 2-D arrays (values setter)')
        n = SInt(self.dims[0]).__index__()
        return iter([AbsArr((self.dims[1],), self.tag) for _ in range(n)])

    # assignment -----------------------------------------------------------------------
    def _assign_check(self, target_len, value: Any) -> None:
        """NumPy rules for x[sel] = value where the selection has 1-D shape (target_len,)."""
        c = cur()
        if isinstance(value, AbsSeq):
            value = value.as_array()
        if isinstance(value, AbsArr):
            if value.ndim > 0:
                # leading dimensions must be 1; the last must be 1 or the target length
                for d in value.dims[:-1]:
                    if not c.branch(d == 1):
                        raise ValueError('could not broadcast input array')
                last = value.dims[-1]
                if not c.branch(last == target_len) and not c.branch(last == 1):
                    raise ValueError('could not broadcast input array')
            # elements are converted only if there is something to fill
            if not can_cast(value.kind, self.kind) and not c.branch(_iv(target_len) == 0):
                raise ValueError(f'could not convert {value.kind} to {self.kind}')
            return
        k = scalar_kind(value)
        if not can_cast(k, self.kind):
            raise ValueError(f'could not convert {k} to {self.kind}')  # scalars are converted eagerly

    def __setitem__(self, idx: Any, value: Any) -> None:
        if self.ndim != 1:
            raise TypeError('absnp: item assignment only modelled for 1-D targets')
        L = self.dims[0]
        c = cur()
        if isinstance(idx, slice):
            if idx.start is None and idx.stop is None and idx.step is None:
                self._assign_check(L, value)
            else:
                # label slices resolve to concrete positions (start, stop, step); length as Python computes it
                n = SInt(L).__index__()
                m = len(range(*slice(_as_int(idx.start), _as_int(idx.stop), _as_int(idx.step)).indices(n)))
                self._assign_check(z3.IntVal(m), value)
            self.writes.append('slice')
            return
        i = _iv(idx) if isinstance(idx, (SInt, int)) else None
        if i is None:
            raise TypeError(f'absnp: index {idx!r} not modelled')
        if not c.branch(z3.And(i >= -L, i < L)):
            raise IndexError('index out of bounds')
        # element assignment: scalar, or an array with exactly one element
        if isinstance(value, AbsSeq):
            value = value.as_array()
        if isinstance(value, AbsArr):
            if value.ndim != 0:
                # NumPy 2: only 0-d arrays -- except for a bool target, which takes the truth value of a size-1 array
                size = z3.IntVal(1)
                for d in value.dims:
                    size = size * d
                if not (self.kind == 'bool' and c.branch(size == 1)):
                    raise ValueError('setting an array element with a sequence')
            if not can_cast(value.kind, self.kind):
                raise ValueError('could not convert')
        else:
            k = scalar_kind(value)
            if not can_cast(k, self.kind):
                raise ValueError(f'could not convert {k} to {self.kind}')
        self.writes.append('item')

    def __getitem__(self, idx):
        raise TypeError('absnp: reads are not modelled (C09 is about shapes)')

    def __repr__(self):
        return f'AbsArr(dims={self.dims}, {self.kind})'


def _as_int(x):
    if x is None:
        return None
    if isinstance(x, SInt):
        return x.__index__()
    return int(x)


def scalar_kind(v: Any) -> str:
    if isinstance(v, (bool, _np.bool_)):
        return 'bool'
    if isinstance(v, (int, _np.integer)):
        return 'int'
    if isinstance(v, (float, _np.floating)):
        return 'float'
    if isinstance(v, str):
        return 'str'
    raise TypeError(f'absnp: scalar {v!r} not modelled')


class AbsSeq(Sequence):
    """A list / tuple / range operand of symbolic length: flat (rank 1) or a rectangular nesting (rank 2)."""

    def __init__(self, dims: Tuple[Any, ...], kind: str, flavour: str = 'list') -> None:
        self.dims = tuple(_iv(d) for d in dims)
        self.kind = kind
        self.flavour = flavour

    def as_array(self, kind: Optional[str] = None) -> AbsArr:
        return AbsArr(self.dims, kind or self.kind)   # list / tuple / range operands get NumPy's default width

    def __len__(self):
        return _len_of(self.dims[0])

    def __getitem__(self, i):
        raise TypeError('absnp: element access of an abstract sequence')


class AbsNp:
    """Stand-in for the `np` global of the container modules."""

    def __init__(self) -> None:
        self.calls: dict = {}
        self.ndarray = (_np.ndarray, AbsArr)
        self.integer = _np.integer

    def __getattr__(self, name):
        return getattr(_np, name)

    def _count(self, n):
        self.calls[n] = self.calls.get(n, 0) + 1

    def array(self, obj, dtype=None, *a, **k):
        self._count('array')
        if isinstance(obj, AbsSeq):
            arr = obj.as_array()
            return arr.astype(dtype) if dtype is not None else arr
        if isinstance(obj, AbsArr):
            return obj.astype(dtype) if dtype is not None else obj.copy()
        if isinstance(obj, list) and obj and all(isinstance(x, AbsArr) for x in obj):
            # the `values` property: stack of the series
            c = cur()
            first = obj[0]
            same = all(len(x.dims) == len(first.dims) for x in obj)
            if same:
                for x in obj[1:]:
                    for d0, d1 in zip(first.dims, x.dims):
                        if not c.branch(d0 == d1):
                            same = False
                            break
                    if not same:
                        break
            if not same:
                raise ValueError('setting an array element with a sequence (inhomogeneous shape)')
            tags = {x.tag for x in obj}
            return AbsArr((len(obj),) + first.dims, tags.pop() if len(tags) == 1 else 'float64')
        if isinstance(obj, list) and not obj:
            return AbsArr((0,), 'float')
        raise TypeError(f'absnp.array: operand {type(obj).__name__} not modelled')

    def full(self, shape, fill_value, dtype=None, *a, **k):
        self._count('full')
        if isinstance(shape, tuple):
            if len(shape) != 1:
                raise TypeError('absnp.full: only 1-D')
            shape = shape[0]
        n = _iv(shape)
        if isinstance(fill_value, (AbsArr, AbsSeq)):
            # np.full(n, array): broadcast the array to (n,)
            tmp = AbsArr((n,), tag_of_dtype(dtype) if dtype is not None else fill_value.tag if isinstance(fill_value, AbsArr) else fill_value.kind)
            tmp._assign_check(n, fill_value)
            return tmp
        k_src = scalar_kind(fill_value)
        t_dst = tag_of_dtype(dtype) if dtype is not None else DEFAULT_TAG[k_src]
        k_dst = TAGS[t_dst]
        if not can_cast(k_src, k_dst):
            if cur().branch(n == 0):
                return AbsArr((n,), t_dst)
            raise ValueError(f'could not convert {k_src} to {k_dst}')
        return AbsArr((n,), t_dst)

    def issubdtype(self, a, b):
        if isinstance(a, AbsDtype):
            a = _np.dtype(NP_OF_TAG[a.tag])
        return _np.issubdtype(a, b)


# ---------------------------------------------------------------------------
def validate_against_numpy(max_dim: int = 4) -> Tuple[int, List[str]]:
    """Every modelled rule vs real NumPy on the grid of concrete shapes with dims 0..max_dim."""
    from .core import Ctx

    marker = {'float': 1.5, 'int': 2, 'bool': True, 'str': 'ab'}
    bad: List[str] = []
    n_cases = 0

    def abstract(fn):
        ctx = Ctx()
        outs = []
        for path in ctx.explore(fn):
            outs.append(path.outcome)
        if len(outs) != 1:
            return ('multi', len(outs))
        o = outs[0]
        return ('exc', type(o[1]).__name__) if o[0] == 'exc' else ('ok', o[1])

    def concrete(fn):
        import warnings
        try:
            with warnings.catch_warnings():
                warnings.simplefilter('ignore')
                return ('ok', fn())
        except (ValueError, IndexError, TypeError) as e:
            return ('exc', type(e).__name__)

    shapes = [()] + [(a,) for a in range(max_dim + 1)] + [(a, b) for a in range(max_dim + 1) for b in range(max_dim + 1)]
    for L in range(max_dim + 1):
        for tk in KINDS:
            for sk in KINDS:
                # x[:] = array / scalar ; x[i] = array ; astype
                for shp in shapes:
                    n_cases += 1
                    src = _np.full(shp, marker[sk], dtype=_NP[sk])

                    def c1():
                        x = _np.full(L, marker[tk], dtype=_NP[tk])
                        x[:] = src
                        return x.shape

                    def a1():
                        x = AbsArr((L,), tk)
                        x[:] = AbsArr(shp, sk)
                        return tuple(z3.simplify(d).as_long() for d in x.dims)

                    r_c, r_a = concrete(c1), abstract(a1)
                    if r_c[0] != r_a[0]:
                        bad.append(f'x[:]=arr L={L} {tk}<-{sk}{shp}: numpy {r_c} model {r_a}')
                    if L > 0:
                        def c2():
                            x = _np.full(L, marker[tk], dtype=_NP[tk])
                            x[0] = src
                            return x.shape

                        def a2():
                            x = AbsArr((L,), tk)
                            x[0] = AbsArr(shp, sk)
                            return (L,)

                        r_c, r_a = concrete(c2), abstract(a2)
                        if r_c[0] != r_a[0]:
                            bad.append(f'x[0]=arr L={L} {tk}<-{sk}{shp}: numpy {r_c} model {r_a}')

                    def c3():
                        return src.astype(_NP[tk]).shape

                    def a3():
                        return tuple(z3.simplify(d).as_long() for d in AbsArr(shp, sk).astype(tk).dims)

                    r_c, r_a = concrete(c3), abstract(a3)
                    if r_c != r_a:
                        bad.append(f'astype {sk}{shp}->{tk}: numpy {r_c} model {r_a}')
                    if len(shp) >= 1:
                        def c4():
                            return src.flatten().shape

                        def a4():
                            return tuple(z3.simplify(d).as_long() for d in AbsArr(shp, sk).flatten().dims)

                        if concrete(c4) != abstract(a4):
                            bad.append(f'flatten {shp}')
                n_cases += 1

                def c5():
                    x = _np.full(L, marker[tk], dtype=_NP[tk])
                    x[:] = marker[sk]
                    return (L,)

                def a5():
                    x = AbsArr((L,), tk)
                    x[:] = marker[sk]
                    return (L,)

                r_c, r_a = concrete(c5), abstract(a5)
                if r_c[0] != r_a[0]:
                    bad.append(f'x[:]=scalar L={L} {tk}<-{sk}: numpy {r_c} model {r_a}')

                def c6():
                    return _np.full(L, marker[sk], dtype=_NP[tk]).shape

                def a6():
                    return tuple(z3.simplify(d).as_long() for d in AbsNp().full(L, marker[sk], dtype=tk).dims)

                r_c, r_a = concrete(c6), abstract(a6)
                if r_c != r_a:
                    bad.append(f'full L={L} {sk}->{tk}: numpy {r_c} model {r_a}')
    return n_cases, bad
