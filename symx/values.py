"""symx.values -- proxy values wrapping z3 terms.

SBool  : z3 Bool
SInt   : z3 Int (Python ints are unbounded; mathematical integers are exact)
SFloat : z3 Float64 (NaN, +-inf, +-0 and comparisons are IEEE-754)
SArr   : tiny 1-D array of proxies with the handful of NumPy operations that
         fsic's solver loops apply to their `check values' vectors.

Arithmetic on SFloat is *uninterpreted* by default (DESIGN 2.3): + - * / **
exp log sqrt are functions Float64 x Float64 -> Float64 about which z3 knows
nothing.  An `unsat' under that abstraction holds for every interpretation,
IEEE-754 included.  `to_ieee(term)` re-interprets + - * / (and x**2 as x*x)
for the confirmation of `sat' answers.
"""
from __future__ import annotations

import math
import struct
from typing import Any, Iterable, List, Sequence

import numpy as np
import z3

from .core import cur, have_ctx

F64 = z3.Float64()
RNE = z3.RNE()

UF_ADD = z3.Function('uf_add', F64, F64, F64)
UF_SUB = z3.Function('uf_sub', F64, F64, F64)
UF_MUL = z3.Function('uf_mul', F64, F64, F64)
UF_DIV = z3.Function('uf_div', F64, F64, F64)
UF_POW = z3.Function('uf_pow', F64, F64, F64)
UF_EXP = z3.Function('uf_exp', F64, F64)
UF_LOG = z3.Function('uf_log', F64, F64)
UF_SQRT = z3.Function('uf_sqrt', F64, F64)
_UFS: dict = {}


def _uf1(name: str):
    if name not in _UFS:
        _UFS[name] = z3.Function(name, F64, F64)
    return _UFS[name]


def _uf2(name: str):
    if name not in _UFS:
        _UFS[name] = z3.Function(name, F64, F64, F64)
    return _UFS[name]
UF_I2F = z3.Function('uf_i2f', z3.IntSort(), F64)
UF_FLOORDIV = z3.Function('uf_floordiv', F64, F64, F64)
UF_MOD = z3.Function('uf_mod', F64, F64, F64)

FORMAT_TOKENS: list = []
ARITH_MODE = ['uf']  # 'uf' | 'ieee' ; module-level so that proxies need no ctx


def set_arith(mode: str) -> None:
    assert mode in ('uf', 'ieee')
    ARITH_MODE[0] = mode


def fpval(x: float) -> z3.FPRef:
    x = float(x)
    if math.isnan(x):
        return z3.fpNaN(F64)
    if math.isinf(x):
        return z3.fpPlusInfinity(F64) if x > 0 else z3.fpMinusInfinity(F64)
    bits = struct.unpack('<Q', struct.pack('<d', x))[0]
    return z3.fpBVToFP(z3.BitVecVal(bits, 64), F64)


def fp_to_float(v: z3.FPNumRef) -> float:
    """Bit-exact conversion of a z3 FP numeral to a Python float."""
    if v.isNaN():
        return float('nan')
    if v.isInf():
        return float('-inf') if v.isNegative() else float('inf')
    sign = 1 if v.sign() else 0
    exp = v.exponent_as_long(biased=True)
    sig = v.significand_as_long()
    bits = (sign << 63) | (exp << 52) | sig
    return struct.unpack('<d', struct.pack('<Q', bits))[0]


# --------------------------------------------------------------------------
class SBool:
    __slots__ = ('t',)

    def __init__(self, t: z3.BoolRef) -> None:
        self.t = t

    def __bool__(self) -> bool:
        return cur().branch(self.t)

    def __invert__(self) -> 'SBool':
        return SBool(z3.Not(self.t))

    def __and__(self, o: Any) -> 'SBool':
        return SBool(z3.And(self.t, as_bool_term(o)))

    __rand__ = __and__

    def __or__(self, o: Any) -> 'SBool':
        return SBool(z3.Or(self.t, as_bool_term(o)))

    __ror__ = __or__

    def __eq__(self, o: Any) -> 'SBool':  # type: ignore[override]
        return SBool(self.t == as_bool_term(o))

    def __ne__(self, o: Any) -> 'SBool':  # type: ignore[override]
        return SBool(self.t != as_bool_term(o))

    __hash__ = None  # type: ignore[assignment]

    # bool -> number coercion as Python does it (True == 1)
    def _as_float(self) -> 'SFloat':
        return SFloat(z3.If(self.t, fpval(1.0), fpval(0.0)))

    def __add__(self, o):
        return self._as_float() + o

    __radd__ = __add__

    def __mul__(self, o):
        return self._as_float() * o

    __rmul__ = __mul__

    def __sub__(self, o):
        return self._as_float() - o

    def __rsub__(self, o):
        return o - self._as_float() if isinstance(o, SFloat) else SFloat(_f(o)) - self._as_float()

    def __repr__(self) -> str:
        return f'SBool({self.t})'


def as_bool_term(o: Any) -> z3.BoolRef:
    if isinstance(o, SBool):
        return o.t
    if isinstance(o, (bool, np.bool_)):
        return z3.BoolVal(bool(o))
    if isinstance(o, z3.BoolRef):
        return o
    raise TypeError(f'cannot use {type(o)} as a boolean term')


# --------------------------------------------------------------------------
class SInt:
    __slots__ = ('t',)

    def __init__(self, t: Any) -> None:
        if isinstance(t, str):
            t = z3.Int(t)
        self.t = t

    @staticmethod
    def _t(o: Any):
        if isinstance(o, SInt):
            return o.t
        if isinstance(o, (bool, np.bool_)):
            return z3.IntVal(int(o))
        if isinstance(o, (int, np.integer)):
            return z3.IntVal(int(o))
        return None

    def _bin(self, o, f, cls):
        t = SInt._t(o)
        if t is None:
            return NotImplemented
        return cls(f(self.t, t))

    def __add__(self, o):
        return self._bin(o, lambda a, b: a + b, SInt)

    __radd__ = __add__

    def __sub__(self, o):
        return self._bin(o, lambda a, b: a - b, SInt)

    def __rsub__(self, o):
        return self._bin(o, lambda a, b: b - a, SInt)

    def __mul__(self, o):
        return self._bin(o, lambda a, b: a * b, SInt)

    __rmul__ = __mul__

    def __neg__(self):
        return SInt(-self.t)

    def __pos__(self):
        return self

    def __abs__(self):
        return SInt(z3.If(self.t < 0, -self.t, self.t))

    def __lt__(self, o):
        return self._bin(o, lambda a, b: a < b, SBool)

    def __le__(self, o):
        return self._bin(o, lambda a, b: a <= b, SBool)

    def __gt__(self, o):
        return self._bin(o, lambda a, b: a > b, SBool)

    def __ge__(self, o):
        return self._bin(o, lambda a, b: a >= b, SBool)

    def __eq__(self, o):  # type: ignore[override]
        t = SInt._t(o)
        if t is None:
            return False
        return SBool(self.t == t)

    def __ne__(self, o):  # type: ignore[override]
        t = SInt._t(o)
        if t is None:
            return True
        return SBool(self.t != t)

    def __hash__(self) -> int:  # type: ignore[override]
        # hash() must hand Python a concrete number consistent with ==: the value is concretised (one path per feasible
        # value; an unbounded one ends the path inconclusive) -- code that keys a dict on a symbolic integer is followed
        return hash(cur().concretize(self.t))

    def __bool__(self) -> bool:
        return cur().branch(self.t != 0)

    def __index__(self) -> int:
        return cur().concretize(self.t)

    def __int__(self) -> int:
        return cur().concretize(self.t)

    def __format__(self, spec: str) -> str:
        # an opaque token that a harness can map back to the term (used when real code renders
        # a symbolic integer into generated text)
        FORMAT_TOKENS.append(self.t)
        return f'__SINT_{len(FORMAT_TOKENS) - 1}__'

    def __str__(self) -> str:
        return f'<SInt {self.t}>'

    __repr__ = __str__


class SLabel(SInt):
    """A span label: only == / != are meaningful; never hashable."""

    __slots__ = ()


# --------------------------------------------------------------------------
def _f(o: Any):
    """z3 Float64 term for a Python/NumPy number or proxy, else None."""
    if isinstance(o, SFloat):
        return o.t
    if isinstance(o, SBool):
        return o._as_float().t
    if isinstance(o, (bool, np.bool_)):
        return fpval(float(o))
    if isinstance(o, (int, float, np.floating, np.integer)):
        return fpval(float(o))
    if isinstance(o, SInt):
        return UF_I2F(o.t)
    return None


NATURAL = [False]  # model NumPy's floating-point warnings (divide / invalid / overflow) on scalar operations
CANON = [False]  # canonical-UF mode (C07): normalisations that are EXACT identities of IEEE-754 arithmetic


def _strip_neg(t):
    """(negated?, core) with t == (-core if negated else core)."""
    neg = False
    while True:
        if z3.is_app(t) and t.decl().kind() == z3.Z3_OP_FPA_NEG:
            neg = not neg
            t = t.arg(0)
            continue
        ts = z3.simplify(t)
        if isinstance(ts, z3.FPNumRef) and not ts.isNaN() and ts.isNegative() and not ts.isZero():
            return (not neg), z3.simplify(z3.fpNeg(ts))
        return neg, t


def _canon_arith(name: str, a, b):
    """IEEE-exact rewrites so that Python's and gfortran's spellings of one expression become one term:
    + and * commutative; x + x == 2 * x; a + (-b) == a - b; (-a) * b == -(a * b); a / (-b) == -(a / b);
    x ** 2 == x * x (what both NumPy and gfortran compute for a square)."""
    if name in ('add', 'sub'):
        na, ca = _strip_neg(a)
        nb, cb = _strip_neg(b)
        if name == 'sub':
            nb = not nb
        # now: (±ca) + (±cb)
        if na and nb:
            return z3.fpNeg(_canon_arith('add', ca, cb))
        if na and not nb:
            return UF_SUB(cb, ca)
        if nb and not na:
            return UF_SUB(ca, cb)
        if ca.eq(cb):
            return _canon_arith('mul', ca, fpval(2.0))
        if ca.get_id() > cb.get_id():
            ca, cb = cb, ca
        return UF_ADD(ca, cb)
    if name in ('mul', 'div'):
        na, ca = _strip_neg(a)
        nb, cb = _strip_neg(b)
        if name == 'mul' and ca.get_id() > cb.get_id():
            ca, cb = cb, ca
        core = UF_MUL(ca, cb) if name == 'mul' else UF_DIV(ca, cb)
        return z3.fpNeg(core) if na != nb else core
    if name == 'pow' and z3.simplify(b).eq(z3.simplify(fpval(2.0))):
        return _canon_arith('mul', a, a)
    return _UF[name](a, b)


def _arith(name: str, a, b):
    if ARITH_MODE[0] == 'ieee':
        return _IEEE[name](a, b)
    if CANON[0]:
        return _canon_arith(name, a, b)
    return _UF[name](a, b)


_UF = {
    'add': UF_ADD,
    'sub': UF_SUB,
    'mul': UF_MUL,
    'div': UF_DIV,
    'pow': UF_POW,
}


def _ieee_pow(a, b):
    b_s = z3.simplify(b)
    if b_s.eq(z3.simplify(fpval(2.0))):
        return z3.fpMul(RNE, a, a)
    return UF_POW(a, b)


_IEEE = {
    'add': lambda a, b: z3.fpAdd(RNE, a, b),
    'sub': lambda a, b: z3.fpSub(RNE, a, b),
    'mul': lambda a, b: z3.fpMul(RNE, a, b),
    'div': lambda a, b: z3.fpDiv(RNE, a, b),
    'pow': _ieee_pow,
}


class SFloat:
    __slots__ = ('t',)
    __array_priority__ = 1000

    def __init__(self, t: Any) -> None:
        if isinstance(t, str):
            t = z3.FP(t, F64)
        self.t = t

    # arithmetic -------------------------------------------------------------
    def _bin(self, o, name, swap=False):
        t = _f(o)
        if t is None:
            if isinstance(o, SArr):
                return NotImplemented
            return NotImplemented
        a, b = (t, self.t) if swap else (self.t, t)
        if NATURAL[0] and name in ('add', 'sub', 'mul', 'div'):
            return SFloat(_natural_arith(name, a, b))
        return SFloat(_arith(name, a, b))

    def __add__(self, o):
        return self._bin(o, 'add')

    def __radd__(self, o):
        return self._bin(o, 'add', True)

    def __sub__(self, o):
        return self._bin(o, 'sub')

    def __rsub__(self, o):
        return self._bin(o, 'sub', True)

    def __mul__(self, o):
        return self._bin(o, 'mul')

    def __rmul__(self, o):
        return self._bin(o, 'mul', True)

    def __truediv__(self, o):
        return self._bin(o, 'div')

    def __rtruediv__(self, o):
        return self._bin(o, 'div', True)

    def __pow__(self, o):
        return self._bin(o, 'pow')

    def __rpow__(self, o):
        return self._bin(o, 'pow', True)

    def __floordiv__(self, o):
        t = _f(o)
        return NotImplemented if t is None else SFloat(UF_FLOORDIV(self.t, t))

    def __rfloordiv__(self, o):
        t = _f(o)
        return NotImplemented if t is None else SFloat(UF_FLOORDIV(t, self.t))

    def __mod__(self, o):
        t = _f(o)
        return NotImplemented if t is None else SFloat(UF_MOD(self.t, t))

    def __rmod__(self, o):
        t = _f(o)
        return NotImplemented if t is None else SFloat(UF_MOD(t, self.t))

    def __neg__(self):
        return SFloat(z3.fpNeg(self.t))

    def __pos__(self):
        return self

    def __abs__(self):
        if CANON[0] and z3.is_app(self.t) and self.t.decl().name() in ('uf_exp', 'uf_sqrt'):
            return self   # |exp(x)| == exp(x), |sqrt(x)| == sqrt(x): the compiler drops the abs
        return SFloat(z3.fpAbs(self.t))

    # methods NumPy's object loops call
    def exp(self):
        if NATURAL[0]:
            return _natural_exp(self.t)
        return SFloat(UF_EXP(self.t))

    def log(self):
        if NATURAL[0]:
            return _natural_log(self.t)
        return SFloat(UF_LOG(self.t))

    def sqrt(self):
        return SFloat(UF_SQRT(self.t))

    # other NumPy functions with a digit in their name (np.log10, np.log1p, np.expm1, np.log2, np.arctan2): uninterpreted
    def log10(self):
        return SFloat(_uf1('uf_log10')(self.t))

    def log1p(self):
        return SFloat(_uf1('uf_log1p')(self.t))

    def expm1(self):
        return SFloat(_uf1('uf_expm1')(self.t))

    def log2(self):
        return SFloat(_uf1('uf_log2')(self.t))

    def arctan2(self, o):
        t = _f(o)
        return NotImplemented if t is None else SFloat(_uf2('uf_arctan2')(self.t, t))

    # comparisons (IEEE) -------------------------------------------------------
    def _cmp(self, o, f):
        t = _f(o)
        if t is None:
            return NotImplemented
        return SBool(f(self.t, t))

    def __lt__(self, o):
        return self._cmp(o, z3.fpLT)

    def __le__(self, o):
        return self._cmp(o, z3.fpLEQ)

    def __gt__(self, o):
        return self._cmp(o, z3.fpGT)

    def __ge__(self, o):
        return self._cmp(o, z3.fpGEQ)

    def __eq__(self, o):  # type: ignore[override]
        return self._cmp(o, z3.fpEQ)

    def __ne__(self, o):  # type: ignore[override]
        t = _f(o)
        if t is None:
            return NotImplemented
        return SBool(z3.Not(z3.fpEQ(self.t, t)))

    __hash__ = None  # type: ignore[assignment]

    def __bool__(self) -> bool:
        # Python: bool(x) is x != 0 (NaN is truthy)
        return cur().branch(z3.Not(z3.fpEQ(self.t, fpval(0.0))))

    def __float__(self):
        raise TypeError('SFloat: silent realisation to float refused')

    def __index__(self):
        raise TypeError('SFloat is not an index')

    # NumPy interop --------------------------------------------------------------
    def __array_ufunc__(self, ufunc, method, *inputs, **kwargs):
        if method != '__call__' or kwargs.get('out') is not None:
            return NotImplemented
        name = ufunc.__name__
        if any(isinstance(x, np.ndarray) for x in inputs):
            # let the (object) array drive the loop element by element
            arrs = [np.asarray(x, dtype=object) if isinstance(x, np.ndarray) else x for x in inputs]
            shape = next(a.shape for a in arrs if isinstance(a, np.ndarray))
            out = np.empty(shape, dtype=object)
            for idx in np.ndindex(shape):
                args = [a[idx] if isinstance(a, np.ndarray) else a for a in arrs]
                out[idx] = _apply_ufunc(name, args)
            return out
        return _apply_ufunc(name, list(inputs))

    def isfinite(self) -> SBool:
        return SBool(z3.And(z3.Not(z3.fpIsNaN(self.t)), z3.Not(z3.fpIsInf(self.t))))

    def isnan(self) -> SBool:
        return SBool(z3.fpIsNaN(self.t))

    def __repr__(self) -> str:
        return f'SFloat({self.t})'


def _finite(t):
    return z3.And(z3.Not(z3.fpIsNaN(t)), z3.Not(z3.fpIsInf(t)))


# NumPy's process-wide floating-point error state as the proxies see it (np.seterr / np.errstate on the stand-in change
# it, exactly as the real calls change NumPy's): category -> 'warn' | 'ignore' | 'raise'
ERRSTATE_DEFAULT = {'divide': 'warn', 'over': 'warn', 'invalid': 'warn', 'under': 'ignore'}
ERRSTATE = dict(ERRSTATE_DEFAULT)


def _err_category(message: str) -> str:
    return 'divide' if message.startswith('divide') else 'over' if message.startswith('overflow') else 'under' if message.startswith('underflow') else 'invalid'


def _warn_if(cond, message: str) -> None:
    """Fork on `cond`; on the true side behave as NumPy does under the current error state (default: warnings.warn with
    RuntimeWarning)."""
    import warnings

    mode = ERRSTATE[_err_category(message)]
    if mode == 'ignore':
        return
    if cur().branch(cond, prefer=False):
        if mode == 'raise':
            raise FloatingPointError(message)
        warnings.warn(message, RuntimeWarning, stacklevel=3)


def _numpy_warnings(name: str, a, b, r) -> None:
    """NumPy's default error state for float64 scalars: divide='warn', over='warn', invalid='warn', under='ignore'.
    Requires interpreted (IEEE) arithmetic: `r` must be the real result term."""
    zero = fpval(0.0)
    if name == 'div':
        _warn_if(z3.And(z3.fpEQ(b, zero), _finite(a), z3.Not(z3.fpEQ(a, zero))), 'divide by zero encountered in scalar divide')
    _warn_if(z3.And(z3.fpIsNaN(r), z3.Not(z3.fpIsNaN(a)), z3.Not(z3.fpIsNaN(b))), f'invalid value encountered in scalar {name}')
    over = z3.And(z3.fpIsInf(r), _finite(a), _finite(b))
    if name == 'div':
        over = z3.And(over, z3.Not(z3.fpEQ(b, zero)))
    _warn_if(over, f'overflow encountered in scalar {name}')


def _signed_inf(neg):
    return z3.If(neg, z3.fpMinusInfinity(F64), z3.fpPlusInfinity(F64))


def _signed_zero(neg):
    return z3.If(neg, z3.fpMinusZero(F64), z3.fpPlusZero(F64))


UF_DIVF = z3.Function('uf_div_finite', F64, F64, F64)
UF_ADDF = z3.Function('uf_add_finite', F64, F64, F64)
UF_MULF = z3.Function('uf_mul_finite', F64, F64, F64)


def _natural_arith(name: str, a, b):
    """NumPy float64 scalar arithmetic with its warnings.  + and - are IEEE-754 (z3 FloatingPoint); for * and /
    every special case (NaN, zeros, infinities, divide-by-zero, invalid) is exact and the ordinary case is an
    uninterpreted finite value: overflow of * and / on finite operands is EXCLUDED from the claim (bit-blasting a
    64-bit multiplier/divider did not finish within 30 s per query)."""
    if name == 'sub' and a.eq(b):
        # x - x: exact without bit-blasting (the solver loop compares a pass with an identical previous pass)
        bad = z3.Or(z3.fpIsNaN(a), z3.fpIsInf(a))
        _warn_if(z3.fpIsInf(a), 'invalid value encountered in scalar subtract')
        return z3.If(bad, z3.fpNaN(F64), z3.fpPlusZero(F64))
    if name == 'sub':
        r = z3.fpSub(RNE, a, b)
        _numpy_warnings(name, a, b, r)
        return r
    nan_in = z3.Or(z3.fpIsNaN(a), z3.fpIsNaN(b))
    if name == 'add':
        ia, ib = z3.fpIsInf(a), z3.fpIsInf(b)
        invalid = z3.And(ia, ib, z3.Xor(z3.fpIsNegative(a), z3.fpIsNegative(b)))
        _warn_if(invalid, 'invalid value encountered in scalar add')
        core = UF_ADDF(a, b)
        cur().require(z3.Implies(z3.And(_finite(a), _finite(b)), _finite(core)))   # overflow of + excluded, as for * and /
        return z3.If(nan_in, z3.fpNaN(F64), z3.If(invalid, z3.fpNaN(F64), z3.If(ia, a, z3.If(ib, b, core))))
    neg = z3.Xor(z3.fpIsNegative(a), z3.fpIsNegative(b))
    za, zb, ia, ib = z3.fpIsZero(a), z3.fpIsZero(b), z3.fpIsInf(a), z3.fpIsInf(b)
    if name == 'div':
        _warn_if(z3.And(zb, _finite(a), z3.Not(za)), 'divide by zero encountered in scalar divide')
        invalid = z3.And(z3.Not(nan_in), z3.Or(z3.And(za, zb), z3.And(ia, ib)))
        _warn_if(invalid, 'invalid value encountered in scalar divide')
        core = UF_DIVF(a, b)
        ordinary = z3.And(_finite(a), _finite(b), z3.Not(zb), z3.Not(za))
        cur().require(z3.Implies(ordinary, _finite(core)))
        return z3.If(nan_in, z3.fpNaN(F64),
                     z3.If(invalid, z3.fpNaN(F64),
                           z3.If(zb, _signed_inf(neg),            # x / 0, x != 0 (finite or infinite)
                                 z3.If(ia, _signed_inf(neg),       # inf / finite
                                       z3.If(ib, _signed_zero(neg),   # finite / inf
                                             z3.If(za, _signed_zero(neg), core))))))
    # mul
    invalid = z3.And(z3.Not(nan_in), z3.Or(z3.And(za, ib), z3.And(ia, zb)))
    _warn_if(invalid, 'invalid value encountered in scalar multiply')
    core = UF_MULF(a, b)
    ordinary = z3.And(_finite(a), _finite(b))
    cur().require(z3.Implies(ordinary, _finite(core)))
    return z3.If(nan_in, z3.fpNaN(F64),
                 z3.If(invalid, z3.fpNaN(F64),
                       z3.If(z3.Or(ia, ib), _signed_inf(neg),
                             z3.If(z3.Or(za, zb), _signed_zero(neg), core))))


UF_LOGF = z3.Function('uf_log_finite', F64, F64)
UF_EXPF = z3.Function('uf_exp_finite', F64, F64)
EXP_OVERFLOW = 709.782712893384   # exp(x) overflows float64 just above this


def _natural_log(x) -> 'SFloat':
    zero = fpval(0.0)
    _warn_if(z3.fpEQ(x, zero), 'divide by zero encountered in log')
    _warn_if(z3.fpLT(x, zero), 'invalid value encountered in log')
    core = UF_LOGF(x)
    cur().require(z3.Implies(z3.And(z3.fpGT(x, zero), z3.Not(z3.fpIsInf(x))), _finite(core)))  # log of a finite positive number is finite
    return SFloat(z3.If(z3.fpIsNaN(x), z3.fpNaN(F64),
                        z3.If(z3.fpEQ(x, zero), z3.fpMinusInfinity(F64),
                              z3.If(z3.fpLT(x, zero), z3.fpNaN(F64),
                                    z3.If(z3.fpIsInf(x), z3.fpPlusInfinity(F64), core)))))


def _natural_exp(x) -> 'SFloat':
    lim = fpval(EXP_OVERFLOW)
    _warn_if(z3.And(z3.fpGT(x, lim), z3.Not(z3.fpIsInf(x))), 'overflow encountered in exp')
    core = UF_EXPF(x)
    cur().require(z3.Implies(z3.And(z3.fpLEQ(x, lim), z3.Not(z3.fpIsInf(x))), z3.And(_finite(core), z3.fpGEQ(core, fpval(0.0)))))
    return SFloat(z3.If(z3.fpIsNaN(x), z3.fpNaN(F64),
                        z3.If(z3.fpGT(x, lim), z3.fpPlusInfinity(F64),
                              z3.If(z3.fpIsInf(x), fpval(0.0), core))))


def _apply_ufunc(name: str, args: list):
    a = args[0]
    b = args[1] if len(args) > 1 else None
    if name == 'exp':
        return _sf(a).exp()
    if name == 'log':
        return _sf(a).log()
    if name == 'sqrt':
        return _sf(a).sqrt()
    if name in ('log10', 'log1p', 'expm1', 'log2'):
        return getattr(_sf(a), name)()
    if name == 'arctan2':
        return _sf(a).arctan2(b)
    if name in ('absolute', 'fabs'):
        return abs(_sf(a))
    if name == 'negative':
        return -_sf(a)
    if name == 'positive':
        return _sf(a)
    if name == 'isfinite':
        return _sf(a).isfinite()
    if name == 'isnan':
        return _sf(a).isnan()
    ops = {
        'add': lambda x, y: x + y,
        'subtract': lambda x, y: x - y,
        'multiply': lambda x, y: x * y,
        'true_divide': lambda x, y: x / y,
        'divide': lambda x, y: x / y,
        'power': lambda x, y: x**y,
        'less': lambda x, y: x < y,
        'less_equal': lambda x, y: x <= y,
        'greater': lambda x, y: x > y,
        'greater_equal': lambda x, y: x >= y,
        'equal': lambda x, y: x == y,
        'not_equal': lambda x, y: x != y,
        'maximum': lambda x, y: _np_maximum(x, y),
        'minimum': lambda x, y: _np_minimum(x, y),
    }
    if name in ops:
        return ops[name](_sf(a), _sf(b))
    raise TypeError(f'symx: ufunc {name} not modelled for SFloat')


def _np_maximum(x, y):
    # np.maximum propagates NaN
    return SFloat(z3.If(z3.Or(z3.fpIsNaN(x.t), z3.fpIsNaN(y.t)), z3.fpNaN(F64), z3.If(z3.fpGEQ(x.t, y.t), x.t, y.t)))


def _np_minimum(x, y):
    return SFloat(z3.If(z3.Or(z3.fpIsNaN(x.t), z3.fpIsNaN(y.t)), z3.fpNaN(F64), z3.If(z3.fpLEQ(x.t, y.t), x.t, y.t)))


def _sf(o: Any) -> SFloat:
    if isinstance(o, SFloat):
        return o
    t = _f(o)
    if t is None:
        raise TypeError(f'symx: cannot lift {type(o)} to SFloat')
    return SFloat(t)


def is_proxy(o: Any) -> bool:
    return isinstance(o, (SFloat, SInt, SBool, SArr))


def contains_proxy(o: Any, depth: int = 0) -> bool:
    if is_proxy(o):
        return True
    if depth < 3 and isinstance(o, (list, tuple)):
        return any(contains_proxy(x, depth + 1) for x in o)
    if isinstance(o, np.ndarray) and o.dtype == object and o.size <= 64:
        return any(is_proxy(x) for x in o.flat)
    return False


# --------------------------------------------------------------------------
class SArr:
    """1-D array of proxies (SFloat or SBool)."""

    def __array_ufunc__(self, ufunc, method, *inputs, **kwargs):
        if method != '__call__' or kwargs.get('out') is not None:
            return NotImplemented
        name = ufunc.__name__
        if len(inputs) == 1:
            return SArr([_apply_ufunc(name, [a]) for a in self.items])
        a, b = inputs
        if isinstance(a, SArr):
            other = a._zip(b)
            pairs = zip(a.items, other)
        else:
            other = b._zip(a)
            pairs = zip(other, b.items)
        res = [_apply_ufunc(name, [x, y]) for x, y in pairs]
        return SArr(res, 'b' if res and isinstance(res[0], SBool) else 'f')

    def __init__(self, items: Iterable[Any], kind: str = 'f') -> None:
        self.kind = kind
        if kind == 'f':
            self.items: List[Any] = [_sf(x) for x in items]
        else:
            self.items = [x if isinstance(x, SBool) else SBool(as_bool_term(x)) for x in items]

    # shape-ish
    @property
    def shape(self):
        return (len(self.items),)

    @property
    def ndim(self):
        return 1

    @property
    def size(self):
        return len(self.items)

    def __len__(self):
        return len(self.items)

    def __iter__(self):
        return iter(self.items)

    def copy(self):
        return SArr(list(self.items), self.kind)

    def __copy__(self):
        return self.copy()

    def __deepcopy__(self, memo):
        return self.copy()

    def reshape(self, *a):
        raise TypeError('SArr.reshape not modelled')

    def _zip(self, o):
        if isinstance(o, SArr):
            if len(o) != len(self):
                raise ValueError('operands could not be broadcast together')
            return list(o.items)
        if isinstance(o, np.ndarray):
            if o.shape != (len(self),):
                if o.shape == ():
                    return [o.item()] * len(self)
                raise ValueError('operands could not be broadcast together')
            return list(o)
        return [o] * len(self)

    def _ew(self, o, f, kind='f'):
        return SArr([f(a, b) for a, b in zip(self.items, self._zip(o))], kind)

    def __sub__(self, o):
        return self._ew(o, lambda a, b: a - b)

    def __rsub__(self, o):
        return self._ew(o, lambda a, b: b - a)

    def __add__(self, o):
        return self._ew(o, lambda a, b: a + b)

    __radd__ = __add__

    def __mul__(self, o):
        return self._ew(o, lambda a, b: a * b)

    __rmul__ = __mul__

    def __truediv__(self, o):
        return self._ew(o, lambda a, b: a / b)

    def __pow__(self, o):
        return self._ew(o, lambda a, b: a**b)

    def __abs__(self):
        return SArr([abs(a) for a in self.items])

    def __neg__(self):
        return SArr([-a for a in self.items])

    def __lt__(self, o):
        return self._ew(o, lambda a, b: a < b, 'b')

    def __le__(self, o):
        return self._ew(o, lambda a, b: a <= b, 'b')

    def __gt__(self, o):
        return self._ew(o, lambda a, b: a > b, 'b')

    def __ge__(self, o):
        return self._ew(o, lambda a, b: a >= b, 'b')

    def __invert__(self):
        assert self.kind == 'b'
        return SArr([~a for a in self.items], 'b')

    def __and__(self, o):
        return self._ew(o, lambda a, b: a & b, 'b')

    def __or__(self, o):
        return self._ew(o, lambda a, b: a | b, 'b')

    def __getitem__(self, i):
        if isinstance(i, SArr) and i.kind == 'b':
            raise TypeError('SArr: boolean-mask read not modelled')
        if isinstance(i, slice):
            return SArr(self.items[i], self.kind)
        return self.items[i]

    def __setitem__(self, i, v):
        if isinstance(i, SArr) and i.kind == 'b':
            if len(i) != len(self):
                raise IndexError('boolean index did not match')
            vt = _sf(v)
            self.items = [SFloat(z3.If(m.t, vt.t, a.t)) for a, m in zip(self.items, i.items)]
            return
        if isinstance(i, slice) and (isinstance(i.start, SInt) or isinstance(i.stop, SInt)):
            # Python's clamping rules for a slice bound b over a sequence of length n:
            #   b < 0 -> max(b + n, 0);  b >= 0 -> min(b, n)      (step 1 only)
            if i.step not in (None, 1):
                raise TypeError('SArr: symbolic slice bounds need step 1')
            n = len(self.items)

            def clamp(b, default):
                if b is None:
                    return z3.IntVal(default)
                bt = b.t if isinstance(b, SInt) else z3.IntVal(int(b))
                return z3.If(bt < 0, z3.If(bt + n < 0, z3.IntVal(0), bt + n), z3.If(bt > n, z3.IntVal(n), bt))

            lo, hi = clamp(i.start, 0), clamp(i.stop, n)
            if isinstance(v, (SArr, list, tuple, np.ndarray)):
                raise TypeError('SArr: symbolic slice assignment of a sequence not modelled')
            vt = _sf(v)
            self.items = [SFloat(z3.If(z3.And(lo <= k, k < hi), vt.t, a.t)) for k, a in enumerate(self.items)]
            return
        if isinstance(i, slice):
            idx = range(*i.indices(len(self.items)))
            if isinstance(v, (SArr, list, tuple, np.ndarray)):
                vs = list(v)
                if len(vs) != len(idx):
                    raise ValueError('could not broadcast')
            else:
                vs = [v] * len(idx)
            for k, x in zip(idx, vs):
                self.items[k] = _sf(x) if self.kind == 'f' else x
            return
        self.items[i] = _sf(v) if self.kind == 'f' else v

    def any(self) -> SBool:
        assert self.kind == 'b'
        return SBool(z3.Or(*[a.t for a in self.items])) if self.items else SBool(z3.BoolVal(False))

    def all(self) -> SBool:
        assert self.kind == 'b'
        return SBool(z3.And(*[a.t for a in self.items])) if self.items else SBool(z3.BoolVal(True))

    def isfinite(self) -> 'SArr':
        return SArr([a.isfinite() for a in self.items], 'b')

    def __repr__(self) -> str:
        return f'SArr({self.items})'


# --------------------------------------------------------------------------
# UF -> IEEE rewriting of a finished term
_UF_DECL = {
    'uf_add': lambda a, b: z3.fpAdd(RNE, a, b),
    'uf_sub': lambda a, b: z3.fpSub(RNE, a, b),
    'uf_mul': lambda a, b: z3.fpMul(RNE, a, b),
    'uf_div': lambda a, b: z3.fpDiv(RNE, a, b),
    'uf_pow': _ieee_pow,
    'uf_sqrt': lambda a: z3.fpSqrt(RNE, a),
    'uf_i2f': lambda a: z3.fpToFP(RNE, z3.ToReal(a), F64),
}


def to_ieee(term: z3.ExprRef, cache: dict = None) -> z3.ExprRef:
    """Rewrite uf_add/sub/mul/div (and x**2, sqrt, int->float) to IEEE-754 ops."""
    if cache is None:
        cache = {}
    todo = [term]
    while todo:
        e = todo[-1]
        k = e.get_id()
        if k in cache:
            todo.pop()
            continue
        if not z3.is_app(e) or e.num_args() == 0:
            cache[k] = e
            todo.pop()
            continue
        kids = e.children()
        missing = [c for c in kids if c.get_id() not in cache]
        if missing:
            todo.extend(missing)
            continue
        new = [cache[c.get_id()] for c in kids]
        name = e.decl().name()
        if name in _UF_DECL and e.decl().kind() == z3.Z3_OP_UNINTERPRETED:
            cache[k] = _UF_DECL[name](*new)
        elif all(n.eq(c) for n, c in zip(new, kids)):
            cache[k] = e
        else:
            cache[k] = e.decl()(*new)
        todo.pop()
    return cache[term.get_id()]


def model_float(m: z3.ModelRef, term: z3.FPRef) -> float:
    v = m.eval(term, model_completion=True)
    v = z3.simplify(v)
    if isinstance(v, z3.FPNumRef):
        return fp_to_float(v)
    raise TypeError(f'model value not a numeral: {v}')


def model_int(m: z3.ModelRef, term) -> int:
    return m.eval(term, model_completion=True).as_long()
