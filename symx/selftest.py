"""symx.selftest -- the engine checks itself against CPython / NumPy.

1. Explorer: the number and the conditions of the paths of small branching
   functions are what enumeration by hand gives; replay of decision prefixes is
   deterministic; infeasible branches are not followed.
2. Proxies: for seeded random concrete operands, an SFloat/SInt expression
   pinned to those operands (IEEE mode) evaluates -- via z3's model -- to
   bit-exactly what Python computes, including NaN, infinities, signed zeros,
   comparisons, abs, neg, truthiness, max/min and NumPy's maximum/minimum.
3. fpval / fp_to_float round-trip on edge values.

Run: python -m symx.selftest   (exit 0 = all passed)
"""
from __future__ import annotations

import math
import random
import struct
import sys

import numpy as np
import z3

from . import values as sv
from .core import Ctx
from .values import SFloat, SInt, fp_to_float, fpval, model_float


def _bits(x: float) -> int:
    return struct.unpack('<Q', struct.pack('<d', x))[0]


def _same(a: float, b: float) -> bool:
    if math.isnan(a) or math.isnan(b):
        return math.isnan(a) and math.isnan(b)
    return _bits(a) == _bits(b)


EDGE = [0.0, -0.0, 1.0, -1.0, 0.1, 2.5, -3.75, 1e308, -1e308, 5e-324, 2.2250738585072014e-308, float('inf'), float('-inf'), float('nan'),
        1.7976931348623157e308, 0.30000000000000004]


def test_roundtrip(errors: list) -> int:
    n = 0
    for x in EDGE:
        v = z3.simplify(fpval(x))
        y = fp_to_float(v)
        n += 1
        if not _same(x, y):
            errors.append(f'fpval/fp_to_float round trip: {x!r} -> {y!r}')
    return n


def test_explorer(errors: list) -> int:
    n = 0
    # three-way branch on two integers: x<y, x==y, x>y -> 3 paths
    ctx = Ctx()
    outs = []

    def f():
        x, y = SInt('x'), SInt('y')
        if x < y:
            return 'lt'
        if x == y:
            return 'eq'
        return 'gt'

    for p in ctx.explore(f):
        outs.append(p.outcome[1])
    n += 1
    if sorted(outs) != ['eq', 'gt', 'lt']:
        errors.append(f'explorer: three-way comparison gave {outs}')
    # infeasible branch is not followed
    ctx = Ctx()
    ctx.assume(z3.Int('x') > 5, 'x > 5')
    outs = []

    def g():
        x = SInt('x')
        if x < 3:
            return 'small'
        return 'big'

    for p in ctx.explore(g):
        outs.append(p.outcome[1])
    n += 1
    if outs != ['big']:
        errors.append(f'explorer: infeasible branch followed: {outs}')
    # NaN makes both float comparisons false: x<y, x>y, x==y, unordered -> 4 paths
    ctx = Ctx()
    outs = []

    def h():
        x, y = SFloat('x'), SFloat('y')
        if x < y:
            return 'lt'
        if x > y:
            return 'gt'
        if x == y:
            return 'eq'
        return 'unordered'

    for p in ctx.explore(h):
        outs.append(p.outcome[1])
    n += 1
    if sorted(outs) != ['eq', 'gt', 'lt', 'unordered']:
        errors.append(f'explorer: float comparison paths {outs}')
    # concretize enumerates exactly the feasible values
    ctx = Ctx()
    ctx.assume(z3.And(z3.Int('k') >= -1, z3.Int('k') <= 2), '-1 <= k <= 2')
    outs = []
    for p in ctx.explore(lambda: [10, 20, 30, 40][SInt('k')]):
        outs.append(p.outcome[1])
    n += 1
    if sorted(outs) != [10, 20, 30, 40]:
        errors.append(f'explorer: concretize gave {outs}')
    # exceptions are outcomes, and the path count of a loop with a symbolic bound is right
    ctx = Ctx()
    ctx.assume(z3.And(z3.Int('m') >= 0, z3.Int('m') <= 3), '0 <= m <= 3')
    outs = []

    def loop():
        m = SInt('m')
        i = 0
        while i < m:
            i += 1
        if i == 2:
            raise ValueError('two')
        return i

    for p in ctx.explore(loop):
        outs.append(p.outcome[1] if p.outcome[0] == 'ok' else type(p.outcome[1]).__name__)
    n += 1
    if sorted(map(str, outs)) != ['0', '1', '3', 'ValueError']:
        errors.append(f'explorer: loop outcomes {outs}')
    return n


def _eval_pinned(build, operands):
    """Value of build(proxies) when the proxies are pinned to `operands` (IEEE mode)."""
    names = [f'p{i}' for i in range(len(operands))]
    s = z3.Solver()
    for nm, x in zip(names, operands):
        s.add(z3.FP(nm, sv.F64) == fpval(x)) if not math.isnan(x) else s.add(z3.fpIsNaN(z3.FP(nm, sv.F64)))
    res = build([SFloat(nm) for nm in names])
    assert str(s.check()) == 'sat'
    m = s.model()
    if isinstance(res, SFloat):
        return model_float(m, res.t)
    t = res.t if hasattr(res, 't') else res
    return z3.is_true(m.eval(t, model_completion=True))


def test_proxies(errors: list, seed: int = 0, rounds: int = 60) -> int:
    rng = random.Random(seed)
    n = 0
    sv.set_arith('ieee')
    try:
        ops = [
            ('a+b', lambda p: p[0] + p[1], lambda a, b: a + b),
            ('a-b', lambda p: p[0] - p[1], lambda a, b: a - b),
            ('a*b', lambda p: p[0] * p[1], lambda a, b: a * b),
            ('a/b', lambda p: p[0] / p[1], lambda a, b: a / b),
            ('abs(a-b)', lambda p: abs(p[0] - p[1]), lambda a, b: abs(a - b)),
            ('-a', lambda p: -p[0], lambda a, b: -a),
            ('a<b', lambda p: p[0] < p[1], lambda a, b: bool(a < b)),
            ('a<=b', lambda p: p[0] <= p[1], lambda a, b: bool(a <= b)),
            ('a==b', lambda p: p[0] == p[1], lambda a, b: bool(a == b)),
            ('a!=b', lambda p: p[0] != p[1], lambda a, b: bool(a != b)),
            ('isfinite(a)', lambda p: p[0].isfinite(), lambda a, b: bool(np.isfinite(a))),
            ('np.maximum', lambda p: np.maximum(p[0], p[1]), lambda a, b: float(np.maximum(a, b))),
            ('np.minimum', lambda p: np.minimum(p[0], p[1]), lambda a, b: float(np.minimum(a, b))),
            ('a*2.5+1', lambda p: p[0] * 2.5 + 1, lambda a, b: a * 2.5 + 1),
            ('1.5-a', lambda p: 1.5 - p[0], lambda a, b: 1.5 - a),
        ]
        for _ in range(rounds):
            a = rng.choice(EDGE + [rng.uniform(-1e3, 1e3), rng.uniform(-1e-3, 1e-3)])
            b = rng.choice(EDGE + [rng.uniform(-1e3, 1e3), a])
            for name, sym, con in ops:
                n += 1
                with np.errstate(all='ignore'):
                    try:
                        want = con(np.float64(a), np.float64(b))
                    except ZeroDivisionError:
                        continue
                got = _eval_pinned(sym, [a, b])
                ok = (got == want) if isinstance(want, bool) else _same(float(got), float(want))
                if not ok:
                    errors.append(f'proxy {name} with a={a!r} b={b!r}: z3 gives {got!r}, NumPy gives {want!r}')
    finally:
        sv.set_arith('uf')
    return n


def main() -> int:
    errors: list = []
    n = test_roundtrip(errors) + test_explorer(errors) + test_proxies(errors)
    if errors:
        for e in errors[:20]:
            print('SELFTEST-FAIL', e)
        return 1
    print(f'symx selftest: {n} checks passed')
    return 0


if __name__ == '__main__':
    sys.exit(main())
