"""symx.zseries -- a period series whose index and length are symbolic.

`ZSeries` stands in for the 1-D float ndarray behind `model._X`: a z3
Array(Int -> Float64) with a symbolic length L and NumPy's 1-D integer index
semantics (valid iff -L <= i < L; i < 0 reads i + L; otherwise IndexError).
Every read and write is logged as (kind, name, raw index term, effective
index term) for the frame / no-wrap obligations (C04, C20).
"""
from __future__ import annotations

from typing import Any, List, Tuple

import z3

from .core import cur
from .values import F64, SBool, SFloat, SInt, _f

ARR = z3.ArraySort(z3.IntSort(), F64)


class ZSeries:
    def __init__(self, name: str, length: Any, log: list, arr: Any = None) -> None:
        self.name = name
        self.L = length.t if isinstance(length, SInt) else (z3.IntVal(length) if isinstance(length, int) else length)
        self.arr = arr if arr is not None else z3.Array(f'{name}!0', z3.IntSort(), F64)
        self.log = log

    # NumPy-ish surface used by generated code
    @property
    def shape(self):
        raise TypeError('ZSeries: shape is symbolic')

    def _index(self, i: Any):
        if isinstance(i, SInt):
            it = z3.simplify(i.t)   # canonical linear form: t-1 and (t+1)-2 become the same term
        elif isinstance(i, (int,)) and not isinstance(i, bool):
            it = z3.IntVal(i)
        else:
            raise TypeError(f'ZSeries[{self.name}]: unsupported index {i!r} ({type(i).__name__})')
        ok = z3.And(it >= -self.L, it < self.L)
        if not cur().branch(ok):
            raise IndexError(f'index out of bounds for series {self.name}')
        eff = z3.If(it < 0, it + self.L, it)
        return it, eff

    def __getitem__(self, i: Any) -> SFloat:
        it, eff = self._index(i)
        self.log.append(('r', self.name, it, eff))
        return SFloat(z3.Select(self.arr, eff))

    def __setitem__(self, i: Any, v: Any) -> None:
        it, eff = self._index(i)
        t = _f(v)
        if t is None:
            raise TypeError(f'ZSeries[{self.name}]: cannot store {type(v).__name__}')
        self.log.append(('w', self.name, it, eff))
        self.arr = z3.Store(self.arr, eff, t)

    def __len__(self):
        raise TypeError('ZSeries: length is symbolic')
