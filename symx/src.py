"""symx.src -- one constructor code path for symbolic and concrete inputs.

A harness builds its scenario from a `Src`: `src.f('name')` is a Float64 input,
`src.i('name')` an integer input.  `SymSrc` hands out proxies and remembers the
names; `ConSrc` hands out the concrete values of a solver model (or of a replay
file).  `witness()` evaluates every remembered name in a z3 model, re-posing
the path condition under IEEE-754 semantics first.
"""
from __future__ import annotations

import time
from typing import Any, Dict, Optional

import numpy as np
import z3

from .core import Ctx, Inconclusive, timed_check
from .values import F64, SFloat, SInt, SLabel, model_float, model_int, to_ieee


class SymSrc:
    symbolic = True

    def __init__(self) -> None:
        self.floats: Dict[str, Any] = {}
        self.ints: Dict[str, Any] = {}

    def f(self, name: str) -> SFloat:
        self.floats[name] = True
        return SFloat(name)

    def i(self, name: str) -> SInt:
        self.ints[name] = True
        return SInt(name)

    def lab(self, name: str) -> SLabel:
        self.ints[name] = True
        return SLabel(name)


class ConSrc:
    symbolic = False

    def __init__(self, values: dict) -> None:
        self.values = values

    def f(self, name: str):
        return np.float64(self.values['f'][name])

    def i(self, name: str) -> int:
        return int(self.values['i'][name])

    lab = i


def witness(ctx: Ctx, src: SymSrc, extra: list = (), timeout_ms: int = 30000, uf_fallback: bool = False) -> Optional[dict]:
    """Concrete inputs satisfying the current path condition (+extra) under
    IEEE-754 arithmetic; None if unsat there (artefact of the UF abstraction)."""
    s = z3.Solver()
    s.set('timeout', timeout_ms)
    cache: dict = {}
    for a in ctx.solver.assertions():
        s.add(to_ieee(a, cache))
    for e in extra:
        s.add(to_ieee(e, cache))
    t0 = time.time()
    r = timed_check(s, timeout_ms / 1000.0)
    ctx.stats.solver_s += time.time() - t0
    ctx.stats.queries[r] = ctx.stats.queries.get(r, 0) + 1
    if r == 'unsat':
        return None
    if r != 'sat':
        if not uf_fallback:
            raise Inconclusive('IEEE confirmation query returned ' + r)
        # z3 could not decide the IEEE query in time: take the model under the uninterpreted abstraction instead.  Its
        # values are still concrete inputs; the replay on the real code -- not the solver -- decides what is reported.
        s = z3.Solver()
        for a in ctx.solver.assertions():
            s.add(a)
        for e in extra:
            s.add(e)
        r = timed_check(s, timeout_ms / 1000.0)
        ctx.stats.queries[r] = ctx.stats.queries.get(r, 0) + 1
        if r != 'sat':
            raise Inconclusive('no witness: IEEE query undecided and UF query ' + r)
    m = s.model()
    return {
        'f': {n: model_float(m, z3.FP(n, F64)) for n in src.floats},
        'i': {n: model_int(m, z3.Int(n)) for n in src.ints},
    }
