"""symx.core -- re-execution symbolic explorer over z3.

The real fsic code is run by CPython with proxy objects (symx.values) in place
of numbers.  Whenever the code needs a concrete truth value the proxy asks the
active `Ctx` (`branch`), which consults z3 for the feasibility of both sides
under the current path condition, follows one and queues the other.  Paths are
enumerated depth-first by re-executing the harness function with a recorded
decision prefix.

Rules (DESIGN 2.1, appendix A):
  * every non-constant decision is recorded (forced or forked) so that a replay
    of a prefix is deterministic;
  * an infeasible path aborts with `PathAbort`, a BaseException, so that
    `except Exception` handlers in the code under test cannot swallow it;
  * `unknown` from the solver, or a budget overrun, raises `Inconclusive`
    (also a BaseException): the check then exits 2, never 0.
"""
from __future__ import annotations

import os
import time
from typing import Any, Callable, Iterator, List, Optional

import z3


class PathAbort(BaseException):
    """The current path is infeasible / abandoned."""


class ReplayDiverged(RuntimeError):
    """Re-executing the function under the same decisions took other decisions: the code under test is not a function
    of its inputs (it remembers something between executions -- a cache, a memo, a module-level table)."""


class Inconclusive(BaseException):
    """Solver said unknown, or a budget was exceeded. Never success."""


_CUR: List['Ctx'] = []


def cur() -> 'Ctx':
    if not _CUR:
        raise RuntimeError('no active symx context')
    return _CUR[-1]


def have_ctx() -> bool:
    return bool(_CUR)


def timed_check(solver: z3.Solver, seconds: float) -> str:
    """solver.check() with a hard deadline: z3's own `timeout` parameter is only polled between
    steps (a large floating-point bit-blast can overrun it by minutes), so a timer thread also
    interrupts the context.  Returns 'sat' / 'unsat' / 'unknown'."""
    import threading

    solver.set('timeout', int(seconds * 1000))
    timer = threading.Timer(seconds + 1.0, solver.ctx.interrupt)
    timer.daemon = True
    timer.start()
    try:
        r = str(solver.check())
    except z3.Z3Exception:
        r = 'unknown'
    finally:
        timer.cancel()
    return r


class Stats:
    def __init__(self) -> None:
        self.paths = 0
        self.aborted = 0
        self.decisions = 0
        self.forks = 0
        self.queries = {'sat': 0, 'unsat': 0, 'unknown': 0}
        self.solver_s = 0.0
        self.cache_hits = 0

    def merge(self, other: 'Stats') -> None:
        self.paths += other.paths
        self.aborted += other.aborted
        self.decisions += other.decisions
        self.forks += other.forks
        for k in self.queries:
            self.queries[k] += other.queries[k]
        self.solver_s += other.solver_s
        self.cache_hits += other.cache_hits

    def as_dict(self) -> dict:
        return {
            'paths': self.paths,
            'aborted_paths': self.aborted,
            'decisions': self.decisions,
            'forks': self.forks,
            'queries': dict(self.queries),
            'solver_s': round(self.solver_s, 3),
            'pc_cache_hits': self.cache_hits,
        }


class Path:
    """One completed path.  Valid only while the explorer is positioned on it."""

    def __init__(self, ctx: 'Ctx', decisions: list, outcome: Any) -> None:
        self.ctx = ctx
        self.decisions = list(decisions)
        self.outcome = outcome
        self.pc = list(ctx._pc)

    def check(self, *extra: z3.BoolRef) -> str:
        """sat/unsat/unknown of pathcond ∧ extra."""
        return self.ctx._check(*extra)

    def holds(self, post: z3.BoolRef) -> str:
        """'unsat' iff post holds for every value on this path."""
        return self.ctx._check(z3.Not(post))

    def model(self, *extra: z3.BoolRef) -> Optional[z3.ModelRef]:
        s = self.ctx.solver
        s.push()
        try:
            for e in extra:
                s.add(e)
            t0 = time.time()
            r = s.check()
            self.ctx.stats.solver_s += time.time() - t0
            self.ctx.stats.queries[str(r)] = self.ctx.stats.queries.get(str(r), 0) + 1
            if str(r) == 'sat':
                return s.model()
            if str(r) == 'unknown':
                raise Inconclusive('solver unknown in model(): ' + s.reason_unknown())
            return None
        finally:
            s.pop()


class Ctx:
    def __init__(
        self,
        *,
        arith: str = 'uf',
        timeout_ms: int = 20000,
        max_paths: int = 200000,
        budget_s: Optional[float] = None,
        concretize_cap: int = 64,
    ) -> None:
        self.arith = arith
        self.solver = z3.Solver()
        self.solver.set('timeout', timeout_ms)
        self.timeout_s = timeout_ms / 1000.0
        self.max_paths = max_paths
        self.budget_s = budget_s
        self.concretize_cap = concretize_cap
        self.stats = Stats()
        self.assumptions: List[str] = []
        self._pc: List[z3.BoolRef] = []
        self._pc_ids: dict = {}
        self._prefix: list = []
        self._decisions: list = []
        self._work: List[list] = []
        self._fresh = 0
        self._t0 = time.time()
        self.exhausted = False
        # a few queries are kept as SMT-LIB2 text so that a check can re-pose them to other solvers
        self.samples: List[tuple] = []
        self.sample_every = int(os.environ.get('SYMX_SAMPLE_EVERY', '0') or 0)
        self._nq = 0

    # -- naming -----------------------------------------------------------
    def fresh(self, stem: str) -> str:
        self._fresh += 1
        return f'{stem}!{self._fresh}'

    # -- assumptions --------------------------------------------------------
    def assume(self, cond: Any, note: str = '') -> None:
        """Global assumption (holds on every path). Checked satisfiable."""
        t = _term(cond)
        self.solver.add(t)
        self.assumptions.append(note or str(t))
        if self._check() != 'sat':
            raise Inconclusive(f'assumption unsatisfiable (vacuous harness): {note or t}')

    def require(self, cond: Any) -> None:
        """Path-local assumption: abandon the path if it cannot hold."""
        t = z3.simplify(_term(cond))
        if z3.is_true(t):
            return
        if z3.is_false(t):
            raise PathAbort()
        i = len(self._decisions)
        if i < len(self._prefix):
            self._record(True, t)
            return
        if t.get_id() in self._pc_ids or self._check(t) == 'sat':
            self._record(True, t)
            return
        raise PathAbort()

    # -- solver -------------------------------------------------------------
    def _check(self, *extra: z3.BoolRef) -> str:
        s = self.solver
        if self.budget_s is not None and time.time() - self._t0 > self.budget_s:
            raise Inconclusive('exploration budget exceeded')
        t0 = time.time()
        self._nq += 1
        keep = self.sample_every and self._nq % self.sample_every == 0 and len(self.samples) < 3
        text = None
        if extra:
            s.push()
            for e in extra:
                s.add(e)
            if keep:
                text = s.to_smt2()
            r = timed_check(s, self.timeout_s)
            s.pop()
        else:
            if keep:
                text = s.to_smt2()
            r = timed_check(s, self.timeout_s)
        self.stats.solver_s += time.time() - t0
        r = str(r)
        if text is not None:
            self.samples.append((text, r))
        self.stats.queries[r] = self.stats.queries.get(r, 0) + 1
        if r == 'unknown':
            raise Inconclusive('solver returned unknown: ' + s.reason_unknown())
        return r

    # -- decisions ------------------------------------------------------------
    def _record(self, choice: Any, term: z3.BoolRef) -> None:
        self._decisions.append(choice)
        self._pc.append(term)
        self._pc_ids[term.get_id()] = True
        self.solver.add(term)
        self.stats.decisions += 1

    def branch(self, cond: z3.BoolRef, prefer: bool = True) -> bool:
        cond = z3.simplify(cond)
        if z3.is_true(cond):
            return True
        if z3.is_false(cond):
            return False
        ncond = z3.simplify(z3.Not(cond))
        i = len(self._decisions)
        if i < len(self._prefix):
            choice = self._prefix[i]
            if not isinstance(choice, bool):
                raise ReplayDiverged('replay misaligned: expected bool decision')
            self._record(choice, cond if choice else ncond)
            return choice
        # literal already on the path?
        if cond.get_id() in self._pc_ids:
            self.stats.cache_hits += 1
            self._record(True, cond)
            return True
        if ncond.get_id() in self._pc_ids:
            self.stats.cache_hits += 1
            self._record(False, ncond)
            return False
        first, second = (cond, ncond) if prefer else (ncond, cond)
        r1 = self._check(first)
        if r1 == 'sat':
            r2 = self._check(second)
            if r2 == 'sat':
                self._work.append(self._decisions + [not prefer])
                self.stats.forks += 1
            self._record(prefer, first)
            return prefer
        # first infeasible: second is forced if the path is feasible at all
        r2 = self._check(second)
        if r2 == 'sat':
            self._record(not prefer, second)
            return not prefer
        raise PathAbort()

    def concretize(self, term: z3.ArithRef) -> int:
        """Fork once per feasible integer value of `term` (needs a bounded pc)."""
        term = z3.simplify(term)
        if z3.is_int_value(term):
            return term.as_long()
        i = len(self._decisions)
        if i < len(self._prefix):
            choice = self._prefix[i]
            if isinstance(choice, bool) or not isinstance(choice, int):
                raise ReplayDiverged('replay misaligned: expected int decision')
            self._record(choice, term == choice)
            return choice
        values: List[int] = []
        s = self.solver
        s.push()
        try:
            while True:
                t0 = time.time()
                r = str(s.check())
                self.stats.solver_s += time.time() - t0
                self.stats.queries[r] = self.stats.queries.get(r, 0) + 1
                if r == 'unknown':
                    raise Inconclusive('unknown while concretizing')
                if r == 'unsat':
                    break
                v = s.model().eval(term, model_completion=True).as_long()
                values.append(v)
                if len(values) > self.concretize_cap:
                    raise Inconclusive(
                        f'concretize: more than {self.concretize_cap} feasible values for {term}'
                    )
                s.add(term != v)
        finally:
            s.pop()
        if not values:
            raise PathAbort()
        values.sort()
        for v in reversed(values[1:]):
            self._work.append(self._decisions + [v])
            self.stats.forks += 1
        self._record(values[0], term == values[0])
        return values[0]

    # -- exploration ------------------------------------------------------------
    def explore(self, fn: Callable[[], Any]) -> Iterator[Path]:
        """Run `fn` once per feasible path.  `fn` returns any outcome object.

        Exceptions derived from Exception raised by fn are outcomes too:
        ('exc', e).  Normal return: ('ok', value).
        """
        self._work = [[]]
        self._t0 = time.time()
        self.exhausted = False
        _CUR.append(self)
        try:
            while self._work:
                if self.stats.paths >= self.max_paths:
                    raise Inconclusive('max_paths exceeded')
                self._prefix = self._work.pop()
                self._decisions = []
                self._pc = []
                self._pc_ids = {}
                self.solver.push()
                try:
                    try:
                        out = ('ok', fn())
                    except PathAbort:
                        self.stats.aborted += 1
                        continue
                    except Exception as e:  # noqa: BLE001 - outcomes
                        out = ('exc', e)
                    if len(self._decisions) < len(self._prefix):
                        raise ReplayDiverged('replay misaligned: prefix not consumed')
                    self.stats.paths += 1
                    yield Path(self, self._decisions, out)
                finally:
                    self.solver.pop()
            self.exhausted = True
        finally:
            _CUR.pop()


def _term(x: Any) -> z3.BoolRef:
    if isinstance(x, z3.ExprRef):
        return x
    if hasattr(x, 't'):
        return x.t
    if isinstance(x, bool):
        return z3.BoolVal(x)
    raise TypeError(f'not a boolean term: {x!r}')
