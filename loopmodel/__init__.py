"""loopmodel -- scripted fsic models and the reference state machine for one
period (DESIGN 3.2, appendix B).

`make_scripted(N, ...)` returns a real `fsic.BaseModel` subclass whose
`_evaluate()` plays back a script: per pass p it writes the values v[p][i]
into the check variables, after consulting a fault kind k[p] (none / warn /
raise) attached to statement fs[p].  Values, fault kinds, fault positions may
be symx proxies or plain numbers: the same class serves symbolic exploration
and concrete replay.

`ref_solve_t` is the specification, written from the text of C02/C06/C04(c),
not from `BaseModel.solve_t`.
"""
from __future__ import annotations

import warnings
from typing import Any, Dict, List, Optional

import numpy as np

NONE, WARN, RAISE, RAISE_SE = 0, 1, 2, 3   # RAISE_SE: the pass raises fsic's own SolutionError (e.g. from a nested model)
WARN_USER, WARN_DEPR = 4, 5                # warnings of other categories than NumPy's RuntimeWarning (user code may warn anything)
HOOK_WARN_USER = 3


class ScriptedFault(ArithmeticError):
    pass


class HookFault(RuntimeError):
    pass


class Script:
    """Inputs of one scripted period solve."""

    def __init__(self, N: int, B: int, *, with_z: bool = False) -> None:
        self.N = N
        self.B = B
        self.with_z = with_z
        self.v: List[List[Any]] = [[0.0] * N for _ in range(B + 1)]  # v[p][i], p = 1..B
        self.z: List[Any] = [0.0] * (B + 1)
        self.kind: List[Any] = [NONE] * (B + 1)
        self.fs: List[Any] = [0] * (B + 1)
        self.kb: Any = NONE  # pre-hook fault
        self.ka: Any = NONE  # post-hook fault
        self.zpost: Any = None  # value the post-solution hook stores into Z at t (None: the hook writes nothing)
        self.ypre: Any = None   # value the PRE-solution hook stores into the first check variable at t (None: nothing)


def check_names(N: int) -> List[str]:
    return [f'Y{i}' for i in range(N)]


_CLASS_CACHE: Dict[tuple, type] = {}


def make_scripted(N: int, *, with_z: bool = False, with_x: bool = True, base=None, lags: int = 0, leads: int = 0, exo_name: str = 'X'):
    import fsic

    base = base or fsic.BaseModel
    key = (N, with_z, with_x, base, lags, leads, exo_name)
    if key in _CLASS_CACHE:
        return _CLASS_CACHE[key]

    class Scripted(base):
        ENDOGENOUS = check_names(N) + (['Z'] if with_z else [])
        EXOGENOUS = [exo_name] if with_x else []   # exo_name: a legal variable name that is also a method / property
        PARAMETERS: List[str] = []
        ERRORS: List[str] = []
        NAMES = ENDOGENOUS + EXOGENOUS
        CHECK = check_names(N)
        LAGS = lags
        LEADS = leads

        def _script_state(self):
            return self.__dict__['_sx']

        def attach(self, script, scripts=None) -> None:
            """`script`: default Script; `scripts`: optional {position: Script} for multi-period runs."""
            self.__dict__['_sx'] = {'script': script, 'scripts': scripts or {}, 'pass': {}, 'log': [], 'snaps': {},
                                    'tlog': []}

        def _sx_for(self, t):
            st = self.__dict__['_sx']
            tc = t if t >= 0 else t + len(self.__dict__['span'])
            return st, st['scripts'].get(tc, st['script']), tc

        def solve_t_before(self, t, *, errors='raise', catch_first_error=True, iteration=None, **kwargs):
            st, s, tc = self._sx_for(t)
            st['log'].append(('before', iteration))
            st['tlog'].append(('before', tc, iteration, st.get('id')))
            kb = s.kb
            if kb == RAISE:
                raise HookFault('scripted pre-hook fault')
            if kb == WARN:
                warnings.warn('scripted pre-hook warning', RuntimeWarning)
            if kb == HOOK_WARN_USER:
                warnings.warn('scripted pre-hook warning (UserWarning)', UserWarning)
            if N >= 1 and s.ypre is not None:
                self.__dict__['_Y0'][t] = s.ypre     # a pre-solution calculation that changes a CHECK variable
            st['log'].append(('before_done', iteration))

        def solve_t_after(self, t, *, errors='raise', catch_first_error=True, iteration=None, **kwargs):
            st, s, tc = self._sx_for(t)
            st['log'].append(('after', iteration))
            st['tlog'].append(('after', tc, iteration, st.get('id')))
            ka = s.ka
            if ka == RAISE:
                raise HookFault('scripted post-hook fault')
            if ka == WARN:
                warnings.warn('scripted post-hook warning', RuntimeWarning)
            if ka == HOOK_WARN_USER:
                warnings.warn('scripted post-hook warning (UserWarning)', UserWarning)
            if with_z and s.zpost is not None:
                self.__dict__['_Z'][t] = s.zpost   # a post-solution calculation that changes a (non-check) variable
            st['log'].append(('after_done', iteration))

        def _evaluate(self, t, *, errors='raise', catch_first_error=True, iteration=None, **kwargs):
            st, s, tc = self._sx_for(t)
            st['pass'][tc] = st['pass'].get(tc, 0) + 1
            p = st['pass'][tc]
            st['log'].append(('eval', iteration))
            st['tlog'].append(('eval', tc, iteration, st.get('id')))
            if p > s.B:
                raise AssertionError('script exhausted: more passes than max_iter')
            kind, fs = s.kind[p], s.fs[p]
            for i in range(max(N, 1)):
                if kind != NONE:
                    if fs == i:
                        if kind == RAISE:
                            raise ScriptedFault('scripted evaluation fault')
                        if kind == RAISE_SE:
                            from fsic.exceptions import SolutionError
                            raise SolutionError('scripted nested solution error')
                        if kind == WARN_USER:
                            warnings.warn('scripted evaluation warning (UserWarning)', UserWarning)
                        elif kind == WARN_DEPR:
                            warnings.warn('scripted evaluation warning (DeprecationWarning)', DeprecationWarning)
                        else:
                            warnings.warn('scripted evaluation warning', RuntimeWarning)
                if i < N:
                    self.__dict__['_Y%d' % i][t] = s.v[p][i]
            if with_z:
                self.__dict__['_Z'][t] = s.z[p]
            st['log'].append(('eval_done', iteration))
            st['snaps'][p] = {n: self.__dict__['_' + n][t] for n in self.names}

    Scripted.__name__ = f'Scripted{N}'
    _CLASS_CACHE[key] = Scripted
    return Scripted


# ---------------------------------------------------------------------------
# value helpers that work for proxies and for NumPy/Python numbers


def _isfinite(x) -> Any:
    if hasattr(x, 'isfinite'):
        return x.isfinite()
    return bool(np.isfinite(x))


def _all(flags: list) -> Any:
    out: Any = True
    for f in flags:
        out = f if out is True else (out & f)
    return out


def _any(flags: list) -> Any:
    out: Any = False
    for f in flags:
        out = f if out is False else (out | f)
    return out


def _tb(x: Any) -> bool:
    """Truth value (forks under symx when x is an SBool)."""
    return bool(x)


class Outcome:
    """Observable result of a period solve."""

    def __init__(self) -> None:
        self.kind: str = 'ret'  # 'ret' | 'exc'
        self.ret: Optional[bool] = None
        self.exc: Optional[str] = None
        self.cause: Optional[str] = None
        self.status: Optional[str] = None  # status[t] afterwards (None = unspecified)
        self.iters: Optional[int] = None  # iterations[t] afterwards (None = unspecified)
        self.n_eval: Optional[int] = None
        self.pre_calls: Optional[list] = None
        self.post_calls: Optional[list] = None
        self.cells: Optional[Dict[str, list]] = None  # expected final cells (None = unspecified)
        self.note: str = ''

    def key(self) -> tuple:
        return (self.kind, self.ret, self.exc, self.cause, self.status, self.iters, self.n_eval,
                tuple(self.pre_calls or []), tuple(self.post_calls or []))

    def as_dict(self) -> dict:
        return {
            'kind': self.kind, 'ret': self.ret, 'exc': self.exc, 'cause': self.cause,
            'status': self.status, 'iterations': self.iters, 'n_eval': self.n_eval,
            'pre_calls': self.pre_calls, 'post_calls': self.post_calls, 'note': self.note,
        }


def ref_solve_t(
    cells: Dict[str, list],
    status0: str,
    iters0: int,
    script: Script,
    *,
    t: int,
    L: int,
    min_iter: Any,
    max_iter: int,
    tol: Any,
    offset: Any,
    failures: str,
    errors: str,
    cfe: bool,
    endogenous: List[str],
    check: List[str],
    lags: int = 0,
    leads: int = 0,
    require_feasible_period: bool = False,
    targets: Optional[List[str]] = None,
) -> Outcome:
    """Specification of one period solve (C02, C06, C04c).

    `cells` maps names to lists of length L (mutated in place: the expected
    final values).  Values may be proxies.
    """
    o = Outcome()
    o.cells = cells
    o.pre_calls, o.post_calls, o.n_eval = [], [], 0
    o.status, o.iters = status0, iters0
    N = script.N
    targets = list(check) if targets is None else list(targets)   # the variables the scripted passes write (default: the check variables)

    def fail_exc(name: str, cause: Optional[str] = None) -> Outcome:
        o.kind, o.exc, o.cause = 'exc', name, cause
        return o

    # -- rejected before anything changes
    if _tb(min_iter > max_iter):
        return fail_exc('ValueError')

    tc = t if t >= 0 else t + L
    if _tb(offset != 0):
        src = tc + offset
        if _tb(src < 0) or _tb(src >= L):
            return fail_exc('IndexError')
        src_i = src.__index__() if hasattr(src, '__index__') else int(src)
        for e in endogenous:
            cells[e][tc] = cells[e][src_i]

    base = [cells[c][tc] for c in check]
    base_finite = _all([_isfinite(b) for b in base])

    strict = errors == 'raise' and cfe

    if errors == 'raise' and not _tb(base_finite):
        return fail_exc('SolutionError')

    # -- pre-hook, exactly once
    o.pre_calls.append(0)
    if _tb(script.kb == RAISE):
        return fail_exc('SolutionError', 'HookFault')
    if _tb(script.kb == WARN) and strict:
        return fail_exc('SolutionError', 'RuntimeWarning')
    if _tb(script.kb == HOOK_WARN_USER) and strict:
        return fail_exc('SolutionError', 'UserWarning')
    if N >= 1 and script.ypre is not None:
        # the pre-solution hook may write a check variable; pass 1 is still measured from the values the period held
        # on entry (`base` above), which is how "moved since the previous pass" reads for k = 1
        cells[targets[0]][tc] = script.ypre

    def finish_fail(k: int) -> Outcome:
        o.status, o.iters = 'F', k
        if failures == 'raise':
            return fail_exc('NonConvergenceError')
        o.kind, o.ret = 'ret', False
        return o

    for k in range(1, max_iter + 1):
        # one evaluation pass
        o.n_eval += 1
        kind, fs = script.kind[k], script.fs[k]
        faulted: Optional[str] = None
        for i in range(max(N, 1)):
            if _tb(kind != NONE):
                if _tb(fs == i):
                    if _tb(kind == RAISE):
                        faulted = 'ScriptedFault'
                        break
                    if _tb(kind == RAISE_SE):
                        faulted = 'SolutionError'
                        break
                    if strict:
                        # any warning, whatever its category, is the first error
                        faulted = 'UserWarning' if _tb(kind == WARN_USER) else 'DeprecationWarning' if _tb(kind == WARN_DEPR) else 'RuntimeWarning'
                        break
            if i < N:
                cells[targets[i]][tc] = script.v[k][i]
        if faulted is None and script.with_z:
            cells['Z'][tc] = script.z[k]
        if faulted is not None:
            if errors == 'raise':
                o.status, o.iters = 'E', k
            else:
                o.status = o.iters = None  # unspecified by the statement
            return fail_exc('SolutionError', faulted)

        cur = [cells[c][tc] for c in check]
        cur_finite = _all([_isfinite(c) for c in cur])

        if not _tb(base_finite):
            # a pass that starts from non-finite check values is never judged
            base, base_finite = cur, cur_finite
            continue

        if not _tb(cur_finite):
            if errors == 'raise':
                o.status, o.iters = 'E', k
                return fail_exc('SolutionError')
            if errors == 'skip':
                o.status, o.iters = 'S', k
                o.kind, o.ret = 'ret', False
                return o
            if errors == 'ignore':
                if k == max_iter:
                    return finish_fail(k)
                base, base_finite = cur, cur_finite
                continue
            if errors == 'replace':
                if k == max_iter:
                    return finish_fail(k)
                base = [_replace_nonfinite(c) for c in cur]
                base_finite = True
                continue
            o.note = 'invalid errors policy: only invariants asserted'
            o.status = o.iters = None
            o.kind, o.exc = 'any', None
            return o

        if _tb(k < min_iter):
            base, base_finite = cur, cur_finite
            continue

        moved_little = _all([abs(c - b) < tol for c, b in zip(cur, base)])
        if _tb(moved_little):
            o.post_calls.append(k)
            if _tb(script.ka == RAISE):
                o.status = o.iters = None
                return fail_exc('SolutionError', 'HookFault')
            if _tb(script.ka == WARN) and strict:
                o.status = o.iters = None
                return fail_exc('SolutionError', 'RuntimeWarning')
            if _tb(script.ka == HOOK_WARN_USER) and strict:
                o.status = o.iters = None
                return fail_exc('SolutionError', 'UserWarning')
            if script.with_z and script.zpost is not None:
                cells['Z'][tc] = script.zpost
            o.status, o.iters = '.', k
            o.kind, o.ret = 'ret', True
            return o
        base, base_finite = cur, cur_finite

    return finish_fail(max_iter)


def _replace_nonfinite(c: Any) -> Any:
    if hasattr(c, 'isfinite'):
        import z3
        from symx.values import SFloat, fpval

        return SFloat(z3.If(c.isfinite().t, c.t, fpval(0.0)))
    return c if np.isfinite(c) else 0.0
