#!/usr/bin/env python3
"""Print the 'as built' table for DESIGN.md section 0 from the evidence files of the last runs."""
import json
import os
import sys

ROOT = os.path.dirname(os.path.dirname(os.path.abspath(__file__)))


def main():
    rows = []
    tl = {}
    tp = os.path.join(ROOT, 'tools', 'thorough_last.json')
    if os.path.exists(tp):
        tl = json.load(open(tp))
    for i in range(1, 21):
        pid = f'C{i:02d}'
        p = os.path.join(ROOT, 'evidence', pid + '.json')
        if not os.path.exists(p):
            continue
        e = json.load(open(p))
        c = e['coverage']
        q = c.get('queries', {})
        cases = c.get('configurations') or c.get('programs') or c.get('evaluations')
        t = tl.get(pid, {})
        rows.append(f"| {pid} | {e['level']} | {e['tier']} | {cases} | {c.get('paths', c.get('states', ''))} | "
                    f"{q.get('unsat', '')} / {q.get('sat', '')} | {c.get('solver_s', '')} | {e['wall_s']} | "
                    f"{t.get('evaluations', '')} | {t.get('unsat', '')} / {t.get('sat', '')} | {t.get('wall_s', '')} |")
    print('| id | level | tier of the evidence file | cases (configs / programs) | paths | queries unsat / sat | solver s (all workers) | wall s | '
          'last thorough sweep: paths | unsat / sat | wall s |')
    print('|----|-------|------|---------------------------|-------|---------------------|------------------------|--------|-------|-------|-------|')
    print('\n'.join(rows))


if __name__ == '__main__':
    main()
