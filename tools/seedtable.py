#!/usr/bin/env python3
"""Print the DESIGN.md table of one round of seeded changes from seeded/<id>_<round>mutK/meta.json.

  tools/seedtable.py r3      (remarks come from seeded/remarks.json: {"C05_r3mut1": "..."} )
"""
import glob
import json
import os
import sys

ROOT = os.path.dirname(os.path.dirname(os.path.abspath(__file__)))


def short(run):
    if run is None:
        return ''
    out = []
    for r in run:
        c = r['check'].split()[1]
        out.append({0: f'{c} passed (missed)', 1: f'{c} VIOLATION', 2: f'{c} inconclusive (exit 2)'}.get(r['exit'], f"{c} exit {r['exit']}"))
    return '; '.join(out)


def main():
    rnd = sys.argv[1]
    remarks = {}
    rp = os.path.join(ROOT, 'seeded', 'remarks.json')
    if os.path.exists(rp):
        remarks = json.load(open(rp))
    print('| change | what it is | first run (checks as they stood) | now caught by | what was strengthened |')
    print('|--------|-----------|----------------------------------|---------------|-----------------------|')
    n = first_caught = now_caught = 0
    for d in sorted(glob.glob(os.path.join(ROOT, 'seeded', f'C??_{rnd}mut?'))):
        name = os.path.basename(d)
        m = json.load(open(os.path.join(d, 'meta.json')))
        desc = (m.get('needs_to_manifest') or '').strip().splitlines()[0] if m.get('needs_to_manifest') else ''
        desc = desc.replace('|', '/')[:230] + ('...' if len(desc) > 230 else '')
        hist = m.get('history') or []
        first = hist[0]['ran'] if hist else m['ran']
        now = ', '.join(sorted({c.split()[1] for c in m.get('detected_by', [])})) or 'none'
        n += 1
        first_caught += any(r['exit'] == 1 for r in first)
        now_caught += bool(m.get('detected_by'))
        print(f"| `{name}` | {desc} | {short(first)} | {now} | {remarks.get(name, '')} |")
    print(f'\n{n} changes; caught on the first run: {first_caught}; caught now: {now_caught}.')


if __name__ == '__main__':
    main()
