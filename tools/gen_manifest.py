#!/usr/bin/env python3
"""Regenerate MANIFEST.json from the table below (kept in one place so that the
manifest stays valid while checks are added)."""
import json, os

ROOT = os.path.dirname(os.path.dirname(os.path.abspath(__file__)))

CHECKS = {
 'C02': dict(cat='model_checking', ref='4/C02', tech='symbolic execution of BaseModel.solve_t/solve_period with z3 proxies (Float64/Int), joint-path comparison against a reference state machine, IEEE-754 confirmation + concrete replay',
   text='Bounded symbolic model checking of the real solve_t/solve_period: for each enumerated configuration (max_iter<=2 quick/<=4 thorough, 0..2 check variables, every position of a length-3 span, failures, catch_first_error, errors) z3 explores every feasible joint path of implementation and reference over ALL finite Float64 cell/pass values, any tol, symbolic min_iter and offset; holds within those bounds, nothing claimed beyond them.',
   note='Trusted: symx engine (validated by per-path concrete witnesses and reachability twins), NumPy stand-in for array/isfinite/any/all/abs on proxy vectors, the reference state machine written from the property text, z3 5.1.0. Scripted models only; arithmetic uninterpreted during exploration (sound over-approximation), IEEE for counterexamples.'),
 'C06': dict(cat='model_checking', ref='4/C06', tech='symbolic execution of BaseModel.solve_t with z3 Float64 proxies incl. NaN/inf and symbolic fault kinds, joint-path comparison against the policy state machine, concrete replay',
   text='Bounded symbolic model checking of the error/failure policies: every errors x failures x catch_first_error x max_iter<=2(4) x 0..2 check variables configuration is explored over ALL Float64 values (NaN, +-inf included) per cell and pass and symbolic fault kinds (none/warning/exception at any statement, hooks too); every joint path must agree with the reference on exception type and cause, status, iterations, passes, hook calls and every cell.',
   note="Trusted: as C02. Interpretations fixed in DESIGN C06 ('replace' baseline = zero-substituted vector; status after an exception under a non-'raise' policy unspecified). Scripted models; natural faults of parser-built equations are a separate sub-check."),
}

NOT_APPLICABLE = [
 ('C11', 'Independence of copies is a statement about object identity in the CPython heap; there is no input value to make symbolic, so a solver has nothing to decide (pointer-rich heaps are a weak target of the technique).'),
 ('C13', "Quantifies over strings only; everything it depends on sits behind CPython's re engine (look-ahead, \\b, lazy quantifiers, alternative priority), str.format and exec, none of which can be executed symbolically here (z3 regex theory lacks them; CrossHair's regex model is unsound on term_re and times out on split_equations)."),
 ('C19', 'Every clause is a round trip through pandas (compiled code: DataFrame construction, iterrows, dtype coercion); stubbing pandas would remove exactly the coercions the property is about.'),
]

def main():
    present = {f[:3].upper() for f in os.listdir(os.path.join(ROOT, 'checks')) if f[0] == 'c' and f[1:3].isdigit()}
    checks = []
    for pid, c in sorted(CHECKS.items()):
        if pid not in present:
            continue
        checks.append({
            'property_id': pid,
            'quick_cmd': f'./vcheck {pid} quick',
            'thorough_cmd': f'./vcheck {pid} thorough',
            'evidence_file': f'/verif/evidence/{pid}.json',
            'replay_cmd_template': './vcheck replay {path}',
            'engine': c.get('engine', 'symx'),
            'level_claimed': {'category': c['cat'], 'text': c['text'], 'design_ref': f"DESIGN.md section {c['ref']}"},
            'level_note': c['note'],
            'technique': c['tech'],
        })
    claimed = {c['property_id'] for c in checks}
    na = [{'property_id': p, 'reason': r} for p, r in NOT_APPLICABLE]
    na_ids = {p for p, _ in NOT_APPLICABLE}
    for i in range(1, 21):
        pid = f'C{i:02d}'
        if pid not in claimed and pid not in na_ids:
            na.append({'property_id': pid, 'reason': 'check not built yet in this round (planned: see DESIGN.md section 4); not claimed until its harness exists'})
    man = {
        'version': 1,
        'setup_cmd': './vcheck setup',
        'hooks': {'guard': 'FSIC_VERIF', 'enable': 'no source hooks: stand-ins are installed by assigning module globals from the harness process', 
                  'baseline_off_cmd': 'cd /repo && /venv/bin/python -m pytest -ra -q -p no:cacheprovider --timeout=900 --continue-on-collection-errors',
                  'source_commits': [], 'add_only': True},
        'engines': [
            {'name': 'symx', 'path': '/verif/symx', 'serves_properties': sorted(claimed), 'kind_free_text': 're-execution symbolic executor for Python over z3 (Int, Float64, uninterpreted arithmetic), explorer by decision-prefix replay'},
        ],
        'checks': checks,
        'not_applicable': sorted(na, key=lambda x: x['property_id']),
        'notes': 'Solver-based checking of the real fsic code; see DESIGN.md. Exit codes: 0 held, 1 VIOLATION (replayed), 2 inconclusive/harness error.',
    }
    with open(os.path.join(ROOT, 'MANIFEST.json'), 'w') as f:
        json.dump(man, f, indent=1)
    print('claimed', sorted(claimed))

if __name__ == '__main__':
    main()
