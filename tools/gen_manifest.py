#!/usr/bin/env python3
"""Regenerate MANIFEST.json from the table below (kept in one place so that the
manifest stays valid while checks are added)."""
import json, os

ROOT = os.path.dirname(os.path.dirname(os.path.abspath(__file__)))

CHECKS = {
 'C02': dict(cat='model_checking', ref='4/C02', tech='symbolic execution of BaseModel.solve_t/solve_period with z3 proxies (Float64/Int), joint-path comparison against a reference state machine, IEEE-754 confirmation + concrete replay',
   text='Bounded symbolic model checking of the real solve_t/solve_period: for each enumerated configuration (max_iter<=2 quick/<=4 thorough, 0..2 check variables, every position of a length-3 span, failures, catch_first_error, errors) z3 explores every feasible joint path of implementation and reference over ALL finite Float64 cell/pass values, any tol, symbolic min_iter and offset; holds within those bounds, nothing claimed beyond them.',
   note='Trusted: symx engine (validated by per-path concrete witnesses and reachability twins), NumPy stand-in for array/isfinite/any/all/abs on proxy vectors, the reference state machine written from the property text, z3 5.1.0. Scripted models plus six parser-built ones (progloop); arbitrary pre-status of the period, public-API histories (solve/read, copy, reindex, whole-series assignment) before the symbolic step, pre- and post-solution hooks that write, strict models, solve_period on list / ndarray / str spans. Arithmetic uninterpreted during exploration (sound over-approximation), IEEE for counterexamples. Interpretation: with a writing pre-hook, pass 1 is measured from the values held on entry.'),
 'C06': dict(cat='model_checking', ref='4/C06', tech='symbolic execution of BaseModel.solve_t with z3 Float64 proxies incl. NaN/inf and symbolic fault kinds, joint-path comparison against the policy state machine, concrete replay',
   text='Bounded symbolic model checking of the error/failure policies: every errors x failures x catch_first_error x max_iter<=2(4) x 0..2 check variables configuration is explored over ALL Float64 values (NaN, +-inf included) per cell and pass and symbolic fault kinds (none/warning/exception at any statement, hooks too); every joint path must agree with the reference on exception type and cause, status, iterations, passes, hook calls and every cell.',
   note="Trusted: as C02. Interpretations fixed in DESIGN C06 ('replace' baseline = zero-substituted vector; status after an exception under a non-'raise' policy unspecified). Scripted models; natural faults of parser-built equations are a separate sub-check that models NumPy's warning rules AND its process-wide error state (np.seterr / errstate); fault kinds: RuntimeWarning, UserWarning, DeprecationWarning, exception, fsic's own SolutionError; arbitrary pre-status; histories; writing hooks."),
}

CHECKS.update({
 'C05': dict(cat='model_checking', ref='4/C05', tech='symbolic execution of SolverMixin.solve/iter_periods/solve_period and the period locators with z3 proxies (symbolic span labels, start/end, per-period values and faults), joint-path comparison with a twin driven by single-period solves',
   text='Bounded symbolic model checking of multi-period solve(): for span types list/range/ndarray/str (length 0..3, 4 thorough) every joint path of solve() and of an explicit loop of solve_t calls over the range computed from the statement is explored, with start/end and list/ndarray labels as unconstrained integers (present, repeated or absent), every Float64 value and a symbolic fault kind per period and pass; the return triple, call order, statuses, iterations and every cell must agree, periods never attempted must be bit-identical to the start.',
   note='Trusted: as C02 plus the first-match reading of explicit labels on list spans with repeated labels (on NumPy-array spans an explicit label matching several positions must raise KeyError); histories: models solved before on another span, then reindexed / copied. pandas spans outside the claim.'),
 'C08': dict(cat='model_checking', ref='4/C08', tech='symbolic execution of BaseLinker.__init__/solve_t/evaluate_t with z3 proxies, joint-path comparison against a reference written from the statement and against the bare-model twin (wrapper law)',
   text='Bounded symbolic model checking of the linker: 1..2 (3 thorough) scripted submodels, 0..1 linker check variables, every ordered sub-selection and unknown ids, max_iter 0..2 (3), symbolic finite values per iteration, any tol, symbolic min_iter and offset; call order, convergence verdict, statuses and iteration counts on linker and submodels, untouched unselected submodels, KeyError/IndexError/InitialisationError, LAGS/LEADS maxima over symbolic integers and the single-model wrapper law are decided per joint path.',
   note='Trusted: as C02; stand-in also installed for fsic.core.linkers.np. min_iter <= max_iter assumed (solve_t of the linker does not validate it; the statement presumes it). Histories: earlier solves with other selections of submodels, linker copied; negative positions with symbolic offsets.'),
 'C17': dict(cat='model_checking', ref='4/C17', tech='symbolic twin execution (TracerMixin model with trace=..., plain model, tracer with tracing off) on the C02/C06 harness; z3 equality of cells and of trace snapshots per joint path',
   text='Bounded symbolic model checking that tracing is observationally neutral and faithful: for every configuration of the C06 lattice (max_iter<=2/3, faults, policies) and trace in {True, [name], name}, entry solve_t/solve_period, every joint path of traced, untraced and trace-off runs has identical outcome/status/iterations/cells, the trace labels are start, before, 0, 1..k[, end] and snapshot j is z3-equal to the values after pass j; no trace is written elsewhere or with tracing off.',
   note='Trusted: as C06; Trace.append/np.hstack run for real on object arrays. Histories (traced solves before, then re-bound / copied / reindexed; a failed traced solve of another period), run-time variables and method-named variables included. reset=True outside the claim.'),
})

CHECKS.update({
 'C01': dict(cat='translation_validation', ref='4/C01', tech='per enumerated script: real parse_model+build_model, generated _evaluate(t) executed symbolically on z3 arrays (symbolic cells, t, L) and compared with an AST reference interpreter by z3 array equality; IEEE/UF witness + concrete replay',
   text='Translation validation of the script-to-Python generator: for every program of a bounded-exhaustive family (expression trees <=3 nodes quick, <=4 thorough, conditional shapes, fixed multi-equation programs) plus seeded samples, z3 shows for ALL cell values, ALL feasible periods t (both spellings) and ALL span lengths L that the generated _evaluate and the normalised equation text compute exactly what an independent AST interpreter computes, write only the left-hand sides and access every series at t+k inside the span. The program dimension is enumerated, not solver-quantified (regex tokeniser not encodable).',
   note='Trusted: symx engine and ZSeries (z3 array with NumPy index semantics), renderer (self-checked against Python ast), reference interpreter; arithmetic uninterpreted (sound), counterexamples replayed on real float64 arrays. Outside: verbatim blocks, named-period indexes, names used as function and variable.'),
})

CHECKS.update({
 'C03': dict(cat='translation_validation', ref='4/C03', tech='symbolic execution of Symbol.combine, build_model_definition LAGS/LEADS arithmetic and iter_periods over z3 integers (inductive merge step; rendered integers mapped back to terms); concrete reference classification per enumerated script',
   text='Three solver-decided obligations over unbounded integers: the merge algebra of Symbol.combine (inductive step over all 9x9 type pairs, so any number of mentions in any order), LAGS/LEADS = lags= if given else max(deepest lag, min_lags) in build_model_definition for 0..3(4) symbols, and iter_periods() default range = exactly the periods that hold the lags/leads (span length 0..4(6)). The classification/order of names per script is a concrete program-level assertion against an AST reference over the enumerated programs (no solver: the tokeniser is regex code).',
   note='Trusted: symx; `type` shadowed in fsic.parser globals so symbolic ints report int; SInt.__format__ tokens. Program dimension enumerated. Named-period indexes outside. Thorough tier: a second engine (crosshair check on xh/combine_contract.py, seven postconditions on the real Symbol.combine, each must be Confirmed over all paths) cross-checks the merge step; repeated builds with other options and NumPy-integer option values are concrete obligations.'),
 'C04': dict(cat='translation_validation', ref='4/C04', tech='z3 linear-integer no-wrap query over every logged access of the generated _evaluate (symbolic t, L); symbolic frame check of BaseModel.solve_t on parser-built models; symbolic infeasible-period query; replay on real arrays',
   text='(a) for every enumerated program with lags/leads, every access of the generated code is shown by z3 to address t+k inside the span for ALL t in the model-derived default range (both spellings) and ALL L; (b) full solve_t on parser-built models over symbolic cells: every cell other than (endogenous, t) and status/iterations outside t is z3-equal to its initial value after return or exception; (c) rejected calls leave the whole symbolic state unchanged (C02/C06 joint paths re-run); (d) for a symbolic infeasible t no path of solve_t returns or merely fails to converge.',
   note='Trusted: as C01/C02. Bounds: span length LAGS+LEADS+1..+3 for (b)/(d), max_iter<=2. Fortran engine and verbatim code outside.'),
})

CHECKS.update({
 'C14': dict(cat='translation_validation', ref='4/C14', tech='per (script, layout): generated _evaluate executed symbolically (z3 arrays, symbolic t, L) against the layout-independent AST reference; concrete symbol-tuple, statement-independence, permutation and fixed-point assertions',
   text='For every program of the pool and every layout of a catalogue of 10 (whitespace at operator/brace/angle/index/parenthesis boundaries, tabs, [0] and [+k] indexes, parenthesise-and-break, comments, blank lines) z3 shows the generated code equivalent to the same reference AST for all cells, t, L - so all layouts are equivalent to each other; symbol names/types/lags/leads across layouts, parse(script) = merge of per-statement parses, permutation and the fixed point of the normal form are concrete program-level assertions.',
   note='Trusted: as C01; renderer self-checked against Python ast per (program, layout). Program and layout dimensions enumerated. Scripts where < and > comparisons could be read as an <error> term are skipped and counted.'),
 'C15': dict(cat='translation_validation', ref='4/C15', tech='per (script, build variant): the variant class _evaluate executed symbolically and compared by z3 array equality with the AST reference (wrapper converter: store-only-if-positive semantics; hand-assembled symbol lists: sequential execution of the code of the symbols in list order); concrete attribute / converter bookkeeping assertions',
   text='build_model, exec of build_model_definition text, exec of Model.CODE, typed/untyped templates, identity-on-code and the documented wrapping converter are each shown by z3 to compute the reference semantics for all cells, t, L on every program of the pool, hence to be pairwise identical; class attributes, lags/leads/min_* settings, converter call count and order, verbatim insertion and the empty symbol list are concrete assertions.',
   note='Trusted: as C01. Wrapper converter explored on programs with few joint paths only (one extra fork per equation).'),
 'C20': dict(cat='translation_validation', ref='4/C20', tech='symbolic execution of each Symbol.code in isolation on z3 arrays: LIA check that every access lies on a graph edge, z3 non-interference query for non-edge cells, path-reachability of every edge; concrete comparison of nodes/edges with AST dependency sets',
   text='Per enumerated program: symbols_to_graph nodes, equation attributes and variable-like edges equal the AST dependency sets (concrete); for every equation z3 shows over all cells, t, L that evaluation accesses only cells with an edge into y, that perturbing a cell without an edge cannot change y (non-interference, up to 3/6 probes per equation), and that every edge the script itself can reach is read on some feasible path.',
   note='Trusted: as C01. Edges inside branches no data can reach (e.g. a if X > X else b) are dead in the script and exempt from the is-read clause.'),
})

CHECKS.update({
 'C10': dict(cat='model_checking', ref='4/C10', tech='symbolic execution of VectorContainer.__getitem__/__setitem__/_resolve_period_slice/_locate_period_in_span(+fallback) with symbolic span labels, requested labels, step and value; per-path comparison with a first-match position map',
   text='Bounded symbolic model checking of label addressing: for list / object-ndarray (fallback locator) spans of symbolic integer labels, range, int64/str ndarrays, str and mixed-hashable lists (length 1..3, 5 thorough) every path over the equality pattern of labels and requests is explored; get/set by label, inclusive label slices with symbolic step 1..n+1 and open ends, KeyError iff absent, frame of writes, and write-then-read agreement across attribute/key/position/label/slice paths are decided per path on symbolic cells.',
   note='Trusted: symx proxies through real NumPy object arrays. pandas index types outside. Histories (container shorter before / read / copied / re-bound) precede the symbolic step in a subset of configurations.'),
 'C12': dict(cat='model_checking', ref='4/C12', tech='symbolic execution of VectorContainer.reindex / BaseModel.reindex over symbolic old and new span labels (all equality patterns); concrete typed arrays with marker values compared per path with a position-map + fill-table oracle',
   text='Bounded symbolic model checking of reindex: old and new spans of 0..3 (4) symbolic integer labels each - z3 explores every equality pattern within and between them (overlap, disjoint, permuted, shrunk, extended, repeated) - crossed with float/int/bool/str/status/iterations series, fill_value / per-variable / unknown fills x strict, containers and solved or unsolved models; values of matching periods, fills of new periods, dtypes, order, lag/lead settings, attributes, unchanged original and KeyError under strict are asserted on every path.',
   note='Trusted: symx; the fill table mirrors NumPy casting of the fill to the variable dtype. pandas mixin reindex outside; independence of the result is only probed (C11 N/A).'),
 'C16': dict(cat='model_checking', ref='4/C16', tech='symbolic execution of fsic.functions shift/lag/lead/diff/dlog with UNBOUNDED symbolic shift and symbolic fill (np.roll / slice assignment stand-ins), z3 equality with the definition per position; symbolic execution of VectorContainer.eval over symbolic span labels for a catalogue of expressions',
   text='Helpers: for vectors of 0..4 (6) symbolic cells z3 proves lag/lead/shift/diff/dlog equal to their definitions at every position for ALL integer shifts p, d (d >= 0) and any fill, and that the input is unchanged. eval: 15 expression shapes (positional and backticked label indexes/slices, arithmetic, helpers, locals precedence, undefined names) over spans with symbolic labels are compared with the directly computed value on every path; container and helper table unchanged.',
   note='Trusted: np.roll stand-in (ite over p mod n) and SArr slice assignment with symbolic bounds (Python clamping rules); eval runs on real NumPy object arrays. Expression dimension enumerated.'),
 'C18': dict(cat='model_checking', ref='4/C18', tech='symbolic twin execution: aliased model vs canonical twin over symbolic operands (values, positions, labels, slice bounds) for every enumerated alias map; z3 equality of all cells and storage-key comparison per path',
   text='For every acyclic alias map over 3 variables and up to 2 (3) alias names (many-to-one, chains, self-maps), each constructed under a 5 s watchdog, 12 operations (reads, whole/sequence/key/position/label/label-slice writes, label and slice reads, replace_values, an _evaluate that uses the alias, constructor keywords) are run through the alias and through the canonical name from the same symbolic state; outcomes, every cell and the set of storage keys must agree on every path.',
   note='Honest note: alias topologies are enumerated; the solver decides the operand dimension only. Rejection of ambiguous PREFERRED_NAMES at construction is checked by enumeration; to_dataframe(use_aliases) (pandas) outside the claim.'),
})

CHECKS.update({
 'C09': dict(cat='model_checking', ref='4/C09', tech='one inductive step per public container operation executed on abstract arrays whose dimensions are z3 integers (symx.absnp, validated against NumPy on a grid each run); z3 decides the shape invariant / unchanged-on-raise per path; replay on real NumPy',
   text='Instead of enumerating histories, one inductive step is decided: from any state satisfying the invariant (span length 0..3, 4 thorough; any dtypes) each operation of the alphabet (add_variable, attribute/item/label/label-slice assignment, replace_values, values setter, add_attribute, strict toggle, unknown/duplicate names) with an operand whose dimensions d0, d1 are ALL non-negative integers either re-establishes rank 1, length len(span) and the creation dtype for every series (z3 query per path) with values = k x L stack and size = k*L, or raises leaving every series object untouched; unambiguous misfits must raise.',
   note='Trusted: symx.absnp shape/cast/broadcast rules (2 560-case grid comparison with real NumPy 2.5 on every run), stand-in installed for containers.np and interfaces.np. The history quantifier is discharged by induction over the invariant. BaseLinker uses the same container class.'),
})

CHECKS.update({
 'C07': dict(cat='translation_validation', ref='4/C07', engine='symx+fir', tech="symbolic execution of the gfortran front-end IR (-fdump-tree-original) of the generated evaluate subroutine against the generated Python _evaluate over the same z3 arrays and canonical uninterpreted arithmetic with interpreted constants; LIA check of the index guards; replay on the machine code via gfortran -shared + ctypes",
   text="Translation validation of the Fortran generator's evaluate routine: for every program of the common subset (bounded-exhaustive <=3 nodes, fixed multi-equation and 40-variable continuation-line programs, seeded samples) the source must compile and the compiler's own IR of evaluate is shown by z3 to leave every series equal to what the Python class computes, for ALL cells, positions t and span lengths (row r <-> NAMES[r-1], index = t+1, both spellings of t), with literals, integer division, index rewriting, row numbers and line wrapping all visible to the comparison; the IR's index guards accept exactly the feasible periods. Second part: the generated solve_t SOURCE is parsed and executed symbolically (fsrc) under the real FortranEngine.solve_t wrapper on seven parser-built models (max_iter 0..2/3, symbolic tol, min_iter, offset, finite Float64 cells, both position spellings) and every joint path must agree with the C02 state machine on outcome, exception type, status, iterations and every cell. Third part: FortranEngine.solve() (generated solve routine) equals the ordered sequence of FortranEngine.solve_t() calls on a twin, over 1..2 (3) feasible periods, default and explicit ranges.",
   note='Trusted: fir (parser of gfortran 12 GENERIC text; version-specific), IEEE-exact normalisations applied to both sides (commutativity, x+x=2x, sign motion, x**2=x*x, powi, symmetric max/min on non-NaN operands, |exp|=exp), finite data. Counterexamples replayed on real machine code at rtol 1e-12. solve_t: the template SOURCE is interpreted (fsrc: the subset of Fortran the template uses; anything else ends inconclusive), not the IR of gfortran; counterexamples are replayed on the machine code through ctypes under the real wrapper, out-of-bounds subscripts on a -fcheck=bounds build in a child process. FortranEngine.solve() with symbolic offsets (offsets -1 / +1 are covered), longer spans and non-finite data in the Fortran loop outside.'),
})

NOT_APPLICABLE = [
 ('C11', 'Independence of copies is a statement about object identity in the CPython heap; there is no input value to make symbolic, so a solver has nothing to decide (pointer-rich heaps are a weak target of the technique).'),
 ('C13', "Quantifies over strings only; everything it depends on sits behind CPython's re engine (look-ahead, \\b, lazy quantifiers, alternative priority), str.format and exec, none of which can be executed symbolically here (z3 regex theory lacks them; CrossHair's regex model is unsound on term_re and times out on split_equations)."),
 ('C19', 'Every clause is a round trip through pandas (compiled code: DataFrame construction, iterrows, dtype coercion); stubbing pandas would remove exactly the coercions the property is about.'),
]

def main():
    present = {f[:3].upper() for f in os.listdir(os.path.join(ROOT, 'checks')) if f[0] == 'c' and f[1:3].isdigit()}
    checks = []
    for pid, c in sorted(CHECKS.items()):
        if pid not in present:
            continue
        checks.append({
            'property_id': pid,
            'quick_cmd': f'./vcheck {pid} quick',
            'thorough_cmd': f'./vcheck {pid} thorough',
            'evidence_file': f'/verif/evidence/{pid}.json',
            'replay_cmd_template': './vcheck replay {path}',
            'engine': c.get('engine', 'symx'),
            'level_claimed': {'category': c['cat'], 'text': c['text'], 'design_ref': f"DESIGN.md section {c['ref']}"},
            'level_note': c['note'],
            'technique': c['tech'],
        })
    claimed = {c['property_id'] for c in checks}
    na = [{'property_id': p, 'reason': r} for p, r in NOT_APPLICABLE]
    na_ids = {p for p, _ in NOT_APPLICABLE}
    for i in range(1, 21):
        pid = f'C{i:02d}'
        if pid not in claimed and pid not in na_ids:
            na.append({'property_id': pid, 'reason': 'check not built yet in this round (planned: see DESIGN.md section 4); not claimed until its harness exists'})
    man = {
        'version': 1,
        'setup_cmd': './vcheck setup',
        'hooks': {'guard': 'FSIC_VERIF', 'enable': 'no source hooks: stand-ins are installed by assigning module globals from the harness process', 
                  'baseline_off_cmd': 'cd /repo && /venv/bin/python -m pytest -ra -q -p no:cacheprovider --timeout=900 --continue-on-collection-errors',
                  'source_commits': [], 'add_only': True},
        'engines': [
            {'name': 'symx', 'path': '/verif/symx', 'serves_properties': sorted(claimed), 'kind_free_text': 're-execution symbolic executor for Python over z3 (Int, Float64, uninterpreted arithmetic), explorer by decision-prefix replay'},
        ],
        'checks': checks,
        'not_applicable': sorted(na, key=lambda x: x['property_id']),
        'notes': 'Solver-based checking of the real fsic code; see DESIGN.md. Exit codes: 0 held, 1 VIOLATION (replayed), 2 inconclusive/harness error.',
    }
    with open(os.path.join(ROOT, 'MANIFEST.json'), 'w') as f:
        json.dump(man, f, indent=1)
    print('claimed', sorted(claimed))

if __name__ == '__main__':
    main()
