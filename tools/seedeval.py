#!/usr/bin/env python3
"""Evaluate a seeded change against the checks.

  tools/seedeval.py <seed_worktree> <mutK> <Cxx> [<Cyy> ...]

1. confirms the change in the scratch worktree: patch applies, the existing test
   suite still passes, the demonstration fails with it and passes without it;
2. stores it as /verif/seeded/<Cxx>_<mutK>/ (patch.diff, demo.py, notes.md, meta.json);
3. applies the patch to /repo, runs the quick check of each listed property,
   records exit code and VIOLATION lines, and reverts /repo straight afterwards.
"""
import json
import os
import shutil
import subprocess
import sys
import time

ROOT = os.path.dirname(os.path.dirname(os.path.abspath(__file__)))
TESTS = ['tests/test_core.py', 'tests/test_parser.py', 'tests/test_functions.py', 'tests/test_extensions.py', 'tests/test_tools.py']
KNOWN_FAIL = 'test_dataframe_to_symbols'


def sh(cmd, cwd=None, timeout=1800):
    p = subprocess.run(cmd, cwd=cwd, shell=isinstance(cmd, str), capture_output=True, text=True, timeout=timeout)
    return p.returncode, (p.stdout + p.stderr)


def main():
    wt, mut, props = sys.argv[1], sys.argv[2], sys.argv[3:]
    tier = os.environ.get('SEED_TIER', 'quick')
    mdir = os.path.join(wt, mut)
    patch = os.path.join(mdir, 'patch.diff')
    meta = {'breaks': props[0], 'source_worktree': wt, 'mutation': mut, 'ran': []}
    # 1. confirm in the scratch worktree
    sh('git checkout -- .', cwd=wt)
    rc, out = sh(f'/venv/bin/python {mut}/demo.py', cwd=wt)
    meta['demo_clean_exit'] = rc
    rc_a, out_a = sh(f'git apply {patch}', cwd=wt)
    if rc_a != 0:
        print('PATCH DOES NOT APPLY in worktree:', out_a[-400:])
        return 2
    rc, out = sh('/venv/bin/python -m pytest -q -p no:cacheprovider ' + ' '.join(TESTS), cwd=wt)
    tail = out.strip().splitlines()[-1] if out.strip() else ''
    failed = [l for l in out.splitlines() if l.startswith('FAILED') and KNOWN_FAIL not in l]
    meta['suite_with_patch'] = tail
    meta['suite_new_failures'] = failed
    rc, out = sh(f'/venv/bin/python {mut}/demo.py', cwd=wt)
    meta['demo_patched_exit'] = rc
    meta['demo_patched_tail'] = out.strip().splitlines()[-3:]
    sh('git checkout -- .', cwd=wt)
    ok = meta['demo_clean_exit'] == 0 and meta['demo_patched_exit'] != 0 and not failed
    meta['confirmed'] = ok
    print(f"confirm: demo clean={meta['demo_clean_exit']} patched={meta['demo_patched_exit']} suite='{tail}' new_failures={len(failed)} -> {'OK' if ok else 'REJECTED'}")
    if not ok:
        return 3
    # 2. store
    rnd = os.environ.get('SEED_ROUND', '')
    dest = os.path.join(ROOT, 'seeded', f'{props[0]}_{rnd}{mut}')
    os.makedirs(dest, exist_ok=True)
    old = os.path.join(dest, 'meta.json')
    if os.path.exists(old):
        prev = json.load(open(old))
        meta['history'] = prev.get('history', []) + [{'ran': prev.get('ran'), 'detected_by': prev.get('detected_by')}]
    for f in ('patch.diff', 'demo.py', 'notes.md'):
        if os.path.exists(os.path.join(mdir, f)):
            shutil.copy(os.path.join(mdir, f), os.path.join(dest, f))
    # 3. run the checks against /repo with the patch applied
    rc, out = sh('git status --porcelain --untracked-files=no', cwd='/repo')
    if out.strip():
        print('/repo has uncommitted changes to tracked files; refusing')
        return 4
    rc_a, out_a = sh(f'git apply {patch}', cwd='/repo')
    if rc_a != 0:
        rc_a, out_a = sh(f'git apply --3way {patch}', cwd='/repo')
    if rc_a != 0:
        print('PATCH DOES NOT APPLY to /repo HEAD:', out_a[-300:])
        meta['applies_to_repo_head'] = False
        json.dump(meta, open(os.path.join(dest, 'meta.json'), 'w'), indent=1)
        sh('git checkout -- .', cwd='/repo')
        return 5
    meta['applies_to_repo_head'] = True
    try:
        for p in props:
            t0 = time.time()
            rc, out = sh(f'./vcheck {p} {tier}', cwd=ROOT, timeout=3600)
            vio = [l for l in out.splitlines() if l.startswith('VIOLATION')]
            info = [l.strip()[:300] for l in out.splitlines() if l.startswith('  ')][:3]
            meta['ran'].append({'check': f'./vcheck {p} {tier}', 'exit': rc, 'violations': len(vio), 'first': info[:2], 'wall_s': round(time.time() - t0, 1)})
            print(f'  {p}: exit={rc} violations={len(vio)} wall={time.time() - t0:.0f}s {info[:1]}')
    finally:
        sh('git checkout -- .', cwd='/repo')
        sh('rm -f replays/*.json', cwd=ROOT)
    meta['detected_by'] = [r['check'] for r in meta['ran'] if r['exit'] == 1]
    notes = os.path.join(dest, 'notes.md')
    meta['needs_to_manifest'] = open(notes).read()[:1500] if os.path.exists(notes) else ''
    json.dump(meta, open(os.path.join(dest, 'meta.json'), 'w'), indent=1)
    # restore evidence of the unchanged tree for the checks we ran
    return 0


if __name__ == '__main__':
    sys.exit(main())
