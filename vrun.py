"""Run one check module: an exception escaping the check is a harness failure (exit 2), never a verdict."""
import importlib
import sys
import traceback


def main() -> int:
    name = sys.argv[1]
    sys.argv = [name] + sys.argv[2:]
    try:
        mod = importlib.import_module(name)
        return int(mod.main() or 0)
    except SystemExit as e:
        return int(e.code or 0)
    except BaseException:  # noqa: BLE001 - PathAbort / Inconclusive are BaseException too
        traceback.print_exc()
        prop = name.split('.')[-1][:3].upper()
        print(f'INCONCLUSIVE property={prop}: the check itself failed (see traceback); no verdict', file=sys.stderr)
        return 2


if __name__ == '__main__':
    sys.exit(main())
