"""CrossHair contracts over the REAL fsic.parser.Symbol.combine (second engine for C03's merge algebra).

Run by checks/c03_classification.py in the thorough tier:
    crosshair check --report_all --per_condition_timeout 40 xh/combine_contract.py
Each function is one inductive merge step over unbounded integers; "Confirmed over all paths" is the expected verdict,
anything else is reported as inconclusive (never as success).
"""
from typing import Tuple

from fsic.parser import Symbol, Type


def merge_variable_mentions(l1: int, d1: int, l2: int, d2: int, t1: int, t2: int) -> Tuple[int, int, int]:
    """
    Two mentions of one variable (types VARIABLE=1 / EXOGENOUS=2 / ENDOGENOUS=3, no equations): the merge keeps the deepest
    lag, the furthest lead and the higher type.

    pre: l1 <= 0 <= d1 and l2 <= 0 <= d2
    pre: 1 <= t1 <= 3 and 1 <= t2 <= 3
    post: __return__[0] == min(l1, l2)
    post: __return__[1] == max(d1, d2)
    post: __return__[2] == max(t1, t2)
    """
    a = Symbol('X', Type(t1), l1, d1, None, None)
    b = Symbol('X', Type(t2), l2, d2, None, None)
    c = a.combine(b)
    return (c.lags, c.leads, int(c.type))


def merge_is_commutative(l1: int, d1: int, l2: int, d2: int, t1: int, t2: int) -> bool:
    """
    pre: l1 <= 0 <= d1 and l2 <= 0 <= d2
    pre: 1 <= t1 <= 3 and 1 <= t2 <= 3
    post: __return__
    """
    a = Symbol('X', Type(t1), l1, d1, None, None)
    b = Symbol('X', Type(t2), l2, d2, None, None)
    x, y = a.combine(b), b.combine(a)
    return (x.lags, x.leads, x.type) == (y.lags, y.leads, y.type)


def merge_same_kind(l1: int, d1: int, l2: int, d2: int, t: int) -> Tuple[int, int, int]:
    """
    Parameters (4) and errors (5) merge with their own kind the same way.

    pre: l1 <= 0 <= d1 and l2 <= 0 <= d2
    pre: 4 <= t <= 5
    post: __return__[0] == min(l1, l2)
    post: __return__[1] == max(d1, d2)
    post: __return__[2] == t
    """
    a = Symbol('p', Type(t), l1, d1, None, None)
    b = Symbol('p', Type(t), l2, d2, None, None)
    c = a.combine(b)
    return (c.lags, c.leads, int(c.type))
