"""fir -- gfortran front-end IR (GENERIC, -fdump-tree-original) translator for
the generated `evaluate` subroutine (C07).

`dump_evaluate(fortran_source)` compiles the source with gfortran in a scratch
directory and returns the text of `void evaluate (...) {...}` as the compiler
printed it after parsing, kind resolution, constant folding and mixed-mode
promotion.  `execute(body, env)` runs that C-like text with symx proxies:
integers are z3 Ints, reals z3 Float64 terms (uninterpreted arithmetic with
interpreted constants), array references are decoded to (row, column).

The semantics of the Fortran source (literal kinds, integer division, ** with
an integer exponent, generic intrinsics) are gfortran's, not ours: we only read
what the compiler produced.
"""
from __future__ import annotations

import ctypes
import os
import re
import shutil
import subprocess
import tempfile
from typing import Any, Callable, Dict, List, Optional, Tuple

import numpy as np


class FirError(Exception):
    pass


def compile_dump(source: str, want_so: bool = False) -> Dict[str, Any]:
    """gfortran -c -fdump-tree-original (and optionally -shared) in a scratch directory."""
    d = tempfile.mkdtemp(prefix='fsic_fir_')
    try:
        src = os.path.join(d, 'm.f95')
        with open(src, 'w') as f:
            f.write(source)
        p = subprocess.run(['gfortran', '-c', '-O0', '-fdump-tree-original', 'm.f95', '-o', 'm.o'], cwd=d, capture_output=True, text=True)
        out: Dict[str, Any] = {'compiled': p.returncode == 0, 'stderr': p.stderr[-1500:]}
        if p.returncode != 0:
            return out
        dumps = [f for f in os.listdir(d) if f.endswith('.original')]
        if not dumps:
            raise FirError('no GENERIC dump produced')
        text = open(os.path.join(d, dumps[0])).read()
        out['dump'] = text
        if want_so:
            p2 = subprocess.run(['gfortran', '-shared', '-fPIC', '-O0', 'm.f95', '-o', 'm.so'], cwd=d, capture_output=True, text=True)
            if p2.returncode != 0:
                raise FirError('shared build failed: ' + p2.stderr[-500:])
            out['so_bytes'] = open(os.path.join(d, 'm.so'), 'rb').read()
        return out
    finally:
        shutil.rmtree(d, ignore_errors=True)


def evaluate_body(dump: str) -> str:
    m = re.search(r'^void evaluate \(.*?\)\n\{\n(.*?)^\}\n', dump, re.S | re.M)
    if not m:
        raise FirError('evaluate not found in the dump')
    return m.group(1)


# ---------------------------------------------------------------------------------------------
# tokenizer / parser of the C-like GENERIC text

TOKEN = re.compile(r'''
    (?P<num>(?:\d+\.\d*(?:[eE][+-]?\d+)?|\d+[eE][+-]?\d+|\d+|Inf|Nan))|
    (?P<sv>SV\b)|
    (?P<cast>\((?:real|integer|logical)\(kind=\d+\)\))|
    (?P<id>\*?[A-Za-z_][A-Za-z_0-9]*(?:\.\d+)?)|
    (?P<op><=|>=|==|!=|&&|\|\||[-+*/<>(),~!])
''', re.X)

SV_REF = re.compile(r'\(\*(solved_values|initial_values)\)\[\(\(integer\(kind=8\)\) (\(index [+-] -?\d+\)|index) \* stride\.\d+ \+ offset\.\d+\) \+ (\d+)\]')


def _prep(text: str) -> str:
    def rep(m):
        arr = 'S' if m.group(1) == 'solved_values' else 'I'
        col = m.group(2).strip('()')
        k = 0
        mm = re.fullmatch(r'index ([+-]) (-?\d+)', col)
        if mm:
            k = int(mm.group(2)) * (1 if mm.group(1) == '+' else -1)
        return f'SV({arr}{k:+d},{m.group(3)})'
    out = SV_REF.sub(rep, text)
    if '(*solved_values)[' in out or '(*initial_values)[' in out:
        # only the whole-array copy loops may keep raw references
        pass
    return out


def tokenize(s: str) -> List[Tuple[str, str]]:
    toks = []
    pos = 0
    while pos < len(s):
        if s[pos].isspace():
            pos += 1
            continue
        if s.startswith('SV(', pos):
            end = s.index(')', pos)
            toks.append(('svref', s[pos + 3:end]))
            pos = end + 1
            continue
        m = TOKEN.match(s, pos)
        if not m:
            raise FirError(f'cannot tokenize IR at: {s[pos:pos + 60]!r}')
        kind = m.lastgroup
        toks.append((kind, m.group(kind)))
        pos = m.end()
    return toks


class Parser:
    """Pratt parser producing a tree: ('num', x) ('var', name) ('sv', arr, k, row) ('un', op, a) ('bin', op, a, b) ('call', f, args) ('cast', ty, a)."""

    PREC = {'||': 1, '&&': 2, '==': 3, '!=': 3, '<': 4, '<=': 4, '>': 4, '>=': 4, '+': 5, '-': 5, '*': 6, '/': 6}

    def __init__(self, toks):
        self.t = toks
        self.i = 0

    def peek(self):
        return self.t[self.i] if self.i < len(self.t) else (None, None)

    def next(self):
        tok = self.t[self.i]
        self.i += 1
        return tok

    def expect(self, v):
        k, x = self.next()
        if x != v:
            raise FirError(f'expected {v!r}, got {x!r}')

    def expr(self, prec=0):
        left = self.unary()
        while True:
            k, x = self.peek()
            if k == 'op' and x in self.PREC and self.PREC[x] > prec:
                self.next()
                right = self.expr(self.PREC[x])
                left = ('bin', x, left, right)
            else:
                return left

    def unary(self):
        k, x = self.peek()
        if k == 'op' and x == '-':
            self.next()
            return ('un', '-', self.unary())
        if k == 'op' and x in ('~', '!'):
            self.next()
            return ('un', x, self.unary())
        if k == 'cast':
            self.next()
            return ('cast', x, self.unary())
        return self.primary()

    def primary(self):
        k, x = self.next()
        if k == 'num':
            return ('num', x)
        if k == 'svref':
            a, row = x.split(',')
            return ('sv', a[0], int(a[1:]), int(row))
        if k == 'op' and x == '(':
            e = self.expr()
            self.expect(')')
            return e
        if k == 'id':
            nk, nx = self.peek()
            if x.endswith('_EXPR') and nk == 'op' and nx == '<':
                self.next()
                args = [self.expr(4)]   # stop at '>' / ','
                while self.peek()[1] == ',':
                    self.next()
                    args.append(self.expr(4))
                self.expect('>')
                return ('call', x, args)
            if nk == 'op' and nx == '(' and (x.startswith('__builtin_') or x.startswith('_gfortran_')):
                self.next()
                args = []
                if self.peek()[1] != ')':
                    args.append(self.expr())
                    while self.peek()[1] == ',':
                        self.next()
                        args.append(self.expr())
                self.expect(')')
                return ('call', x, args)
            return ('var', x)
        raise FirError(f'unexpected token {x!r}')


def parse_expr(s: str):
    p = Parser(tokenize(_prep(s)))
    e = p.expr()
    if p.i != len(p.t):
        raise FirError(f'trailing tokens in {s!r}: {p.t[p.i:][:4]}')
    return e


# ---------------------------------------------------------------------------------------------
# statements

def split_statements(body: str) -> List[Any]:
    """Nested list of statements from the logic part of `evaluate` (after the whole-array copy)."""
    start = body.find('*error_code = -1;')
    if start < 0:
        raise FirError('start of the logic part not found')
    lines = [l.strip() for l in body[start:].splitlines() if l.strip()]
    pos = 0

    def block() -> List[Any]:
        nonlocal pos
        out: List[Any] = []
        while pos < len(lines):
            l = lines[pos]
            if l == '}':
                pos += 1
                return out
            if l == '{':
                pos += 1
                out.append(('block', block()))
                continue
            if l.startswith('if ('):
                cond = l[3:].strip()
                assert cond.startswith('(') and cond.endswith(')'), cond
                pos += 1
                assert lines[pos] == '{', lines[pos]
                pos += 1
                then = block()
                other: List[Any] = []
                if pos < len(lines) and lines[pos] == 'else':
                    pos += 1
                    assert lines[pos] == '{'
                    pos += 1
                    other = block()
                out.append(('if', cond[1:-1], then, other))
                continue
            pos += 1
            if re.fullmatch(r'L\.\d+:;', l):
                continue
            if l == 'return;':
                out.append(('return',))
                continue
            if re.fullmatch(r'(real|integer|logical)\(kind=\d+\) [A-Za-z_.0-9]+;', l):
                continue  # declaration
            m = re.fullmatch(r'(.+?) = (.+);', l)
            if m:
                out.append(('assign', m.group(1), m.group(2)))
                continue
            raise FirError(f'statement not understood: {l!r}')
        return out

    return block()


class Return(Exception):
    pass


def execute(stmts: List[Any], env: 'Env') -> None:
    for st in stmts:
        k = st[0]
        if k == 'block':
            execute(st[1], env)
        elif k == 'if':
            if env.truth(env.eval(parse_expr(st[1]))):
                execute(st[2], env)
            else:
                execute(st[3], env)
        elif k == 'return':
            raise Return()
        elif k == 'assign':
            env.assign(st[1], env.eval(parse_expr(st[2])))


class Env:
    """Evaluation environment; subclass supplies arithmetic (symbolic or concrete)."""

    def __init__(self, consts: Dict[str, Any]) -> None:
        self.vars: Dict[str, Any] = dict(consts)

    # to be provided
    def real(self, text: str):
        raise NotImplementedError

    def read(self, arr: str, k: int, row: int):
        raise NotImplementedError

    def write(self, k: int, row: int, value):
        raise NotImplementedError

    def truth(self, v) -> bool:
        return bool(v)

    def to_real(self, v):
        raise NotImplementedError

    def call(self, name: str, args: list):
        raise NotImplementedError

    def arith(self, op: str, a, b):
        raise NotImplementedError

    def neg(self, a):
        return -a

    # generic
    def assign(self, lhs: str, value) -> None:
        lhs = _prep(lhs)
        if lhs.startswith('SV('):
            a, row = lhs[3:-1].split(',')
            if a[0] != 'S':
                raise FirError('write to initial_values')
            self.write(int(a[1:]), int(row), value)
        else:
            self.vars[lhs] = value

    def eval(self, e):
        k = e[0]
        if k == 'num':
            txt = e[1]
            if re.fullmatch(r'\d+', txt):
                return int(txt)
            return self.real(txt)
        if k == 'var':
            if e[1] not in self.vars:
                raise FirError(f'unknown IR variable {e[1]}')
            return self.vars[e[1]]
        if k == 'sv':
            return self.read(e[1], e[2], e[3])
        if k == 'un':
            if e[1] == '-':
                return self.neg(self.eval(e[2]))
            raise FirError(f'unary {e[1]} not modelled')
        if k == 'cast':
            v = self.eval(e[2])
            if e[1].startswith('(real'):
                if 'kind=4' in e[1]:
                    raise FirError('cast to real(4) not modelled')
                return self.to_real(v)
            return v
        if k == 'call':
            return self.call(e[1], [self.eval(a) for a in e[2]])
        if k == 'bin':
            return self.arith(e[1], self.eval(e[2]), self.eval(e[3]))
        raise FirError(e)


# ---------------------------------------------------------------------------------------------
# concrete execution of the machine code through ctypes

class NativeEvaluate:
    """Loads the gfortran-built shared object and exposes evaluate(values[nrows, ncols], t) like f2py would."""

    def __init__(self, so_bytes: bytes) -> None:
        self._dir = tempfile.mkdtemp(prefix='fsic_so_')
        self._path = os.path.join(self._dir, 'm.so')
        with open(self._path, 'wb') as f:
            f.write(so_bytes)
        self.lib = ctypes.CDLL(self._path)

    def evaluate(self, values: np.ndarray, t_fortran: int) -> Tuple[np.ndarray, int]:
        nrows, ncols = values.shape
        init = np.asfortranarray(values, dtype=np.float64)
        out = np.zeros((nrows, ncols), dtype=np.float64, order='F')
        err = ctypes.c_int(-99)
        self.lib.evaluate_(init.ctypes.data_as(ctypes.c_void_p), ctypes.byref(ctypes.c_int(t_fortran)),
                           out.ctypes.data_as(ctypes.c_void_p), ctypes.byref(err),
                           ctypes.byref(ctypes.c_int(nrows)), ctypes.byref(ctypes.c_int(ncols)))
        return out, err.value

    # the two other routines, with the call signatures the f2py-built module has (so that an instance can stand in for
    # `FortranEngine.ENGINE`): inputs in, outputs returned as a tuple
    def solve_t(self, initial_values, t, min_iter, max_iter, tol, offset, convergence_variables, error_control):
        nrows, ncols = np.shape(initial_values)
        init = np.asfortranarray(initial_values, dtype=np.float64)
        out = np.zeros((nrows, ncols), dtype=np.float64, order='F')
        conv = np.asarray(list(convergence_variables), dtype=np.int32)
        converged, iteration, err = ctypes.c_int(0), ctypes.c_int(-99), ctypes.c_int(-99)
        ci = ctypes.c_int
        self.lib.solve_t_(init.ctypes.data_as(ctypes.c_void_p), ctypes.byref(ci(int(t))), ctypes.byref(ci(int(min_iter))),
                          ctypes.byref(ci(int(max_iter))), ctypes.byref(ctypes.c_double(float(tol))), ctypes.byref(ci(int(offset))),
                          conv.ctypes.data_as(ctypes.c_void_p), ctypes.byref(ci(int(error_control))),
                          out.ctypes.data_as(ctypes.c_void_p), ctypes.byref(converged), ctypes.byref(iteration), ctypes.byref(err),
                          ctypes.byref(ci(nrows)), ctypes.byref(ci(ncols)), ctypes.byref(ci(len(conv))))
        return out, bool(converged.value), iteration.value, err.value

    def solve(self, initial_values, indexes, min_iter, max_iter, tol, offset, convergence_variables, failure_control, error_control):
        nrows, ncols = np.shape(initial_values)
        init = np.asfortranarray(initial_values, dtype=np.float64)
        out = np.zeros((nrows, ncols), dtype=np.float64, order='F')
        idx = np.asarray(list(indexes), dtype=np.int32)
        conv = np.asarray(list(convergence_variables), dtype=np.int32)
        n = len(idx)
        conv_res = np.zeros(n, dtype=np.int32)
        iters = np.zeros(n, dtype=np.int32)
        codes = np.zeros(n, dtype=np.int32)
        ci = ctypes.c_int
        self.lib.solve_(init.ctypes.data_as(ctypes.c_void_p), idx.ctypes.data_as(ctypes.c_void_p), ctypes.byref(ci(int(min_iter))),
                        ctypes.byref(ci(int(max_iter))), ctypes.byref(ctypes.c_double(float(tol))), ctypes.byref(ci(int(offset))),
                        conv.ctypes.data_as(ctypes.c_void_p), ctypes.byref(ci(int(failure_control))), ctypes.byref(ci(int(error_control))),
                        out.ctypes.data_as(ctypes.c_void_p), conv_res.ctypes.data_as(ctypes.c_void_p), iters.ctypes.data_as(ctypes.c_void_p),
                        codes.ctypes.data_as(ctypes.c_void_p), ctypes.byref(ci(nrows)), ctypes.byref(ci(ncols)), ctypes.byref(ci(len(conv))),
                        ctypes.byref(ci(n)))
        return out, conv_res.astype(bool), iters, codes

    def close(self) -> None:
        shutil.rmtree(self._dir, ignore_errors=True)
