"""vlib -- shared plumbing for the checks: tiers, seeds, evidence, known
findings, replay files, process pool."""
from __future__ import annotations

import json
import multiprocessing as mp
import os
import subprocess
import sys
import time
import traceback
from typing import Any, Callable, Dict, Iterable, List, Optional

ROOT = os.path.dirname(os.path.abspath(__file__))
REPO = os.environ.get('FSIC_REPO', '/repo')
EVIDENCE_DIR = os.path.join(ROOT, 'evidence')
REPLAY_DIR = os.path.join(ROOT, 'replays')
KNOWN_FINDINGS = os.path.join(ROOT, 'known_findings.json')

EXIT_OK, EXIT_VIOLATION, EXIT_INCONCLUSIVE = 0, 1, 2


def tier(argv: Optional[List[str]] = None) -> str:
    argv = sys.argv[1:] if argv is None else argv
    for a in argv:
        if a in ('quick', 'thorough'):
            return a
    return os.environ.get('VERIF_TIER', 'quick') if os.environ.get('VERIF_TIER') in ('quick', 'thorough') else 'quick'


def seed() -> int:
    try:
        return int(os.environ.get('VERIF_SEED', '0'))
    except ValueError:
        return 0


def ncpu() -> int:
    try:
        return max(1, min(16, len(os.sched_getaffinity(0))))
    except Exception:  # noqa: BLE001
        return max(1, min(16, os.cpu_count() or 1))


def repo_head() -> str:
    try:
        return subprocess.run(['git', '-C', REPO, 'rev-parse', 'HEAD'], capture_output=True, text=True).stdout.strip()
    except Exception:  # noqa: BLE001
        return ''


def load_known_findings() -> dict:
    try:
        with open(KNOWN_FINDINGS) as f:
            return json.load(f)
    except FileNotFoundError:
        return {'findings': [], 'fixed': []}


def known_for(prop: str) -> List[dict]:
    return [f for f in load_known_findings().get('findings', []) if f.get('property') == prop]


def pmap(fn: Callable[[Any], Any], items: Iterable[Any], procs: Optional[int] = None, chunksize: int = 1) -> List[Any]:
    items = list(items)
    procs = procs or ncpu()
    if procs <= 1 or len(items) <= 1 or os.environ.get('VERIF_SERIAL'):
        return [fn(x) for x in items]
    ctx = mp.get_context('fork')
    with ctx.Pool(min(procs, len(items))) as pool:
        return list(pool.imap(fn, items, chunksize))


class guarded:
    """Wrap a (module-level) worker so that harness errors travel back as data."""

    def __init__(self, fn: Callable[[Any], Any]) -> None:
        self.fn = fn

    def __call__(self, x):
        try:
            return self.fn(x)
        except BaseException as e:  # noqa: BLE001
            return {'harness_error': f'{type(e).__name__}: {e}', 'trace': traceback.format_exc(), 'item': repr(x)[:400]}


class Report:
    """Collects what a check run covered and decides the exit code."""

    def __init__(self, prop: str, level: str, tier_: str) -> None:
        self.prop = prop
        self.level = level
        self.tier = tier_
        self.t0 = time.time()
        self.violations: List[dict] = []
        self.known_hits: List[dict] = []
        self.errors: List[str] = []
        self.coverage: Dict[str, Any] = {}
        self.assumptions: List[str] = []
        self.known = known_for(prop)

    # -- findings ----------------------------------------------------------------
    def violation(self, key: str, what: str, replay: dict) -> None:
        """A replayed counterexample.  `key` identifies the failing input class."""
        for k in self.known:
            if k.get('key') == key:
                if not any(h['key'] == key for h in self.known_hits):
                    self.known_hits.append({'key': key, 'what': k.get('what', what)})
                return
        if any(v['key'] == key for v in self.violations):
            return
        os.makedirs(REPLAY_DIR, exist_ok=True)
        path = os.path.join(REPLAY_DIR, f'{self.prop}_{_slug(key)}.json')
        with open(path, 'w') as f:
            json.dump({'property': self.prop, 'key': key, 'what': what, 'replay': replay,
                       'repo_head': repo_head()}, f, indent=1, default=str)
        self.violations.append({'key': key, 'what': what, 'path': path})

    def error(self, msg: str) -> None:
        self.errors.append(msg)

    # -- output ---------------------------------------------------------------------
    def finish(self) -> int:
        wall = time.time() - self.t0
        cov = dict(self.coverage)
        cov.setdefault('evaluations', 0)
        cov.setdefault('distinct_nontrivial', 0)
        cov.setdefault('rule', '')
        cov.setdefault('samples', [])
        cov['known_findings_hit'] = self.known_hits
        cov['violations_detail'] = [{'key': v['key'], 'what': v['what']} for v in self.violations]
        cov['harness_errors'] = self.errors[:20]
        cov['repo_head'] = repo_head()
        ev = {
            'property_id': self.prop,
            'tier': self.tier,
            'seed': seed(),
            'level': self.level,
            'coverage': cov,
            'assumptions': self.assumptions,
            'wall_s': round(wall, 2),
            'violations': len(self.violations),
        }
        os.makedirs(EVIDENCE_DIR, exist_ok=True)
        with open(os.path.join(EVIDENCE_DIR, f'{self.prop}.json'), 'w') as f:
            json.dump(ev, f, indent=1, default=str)
        for h in self.known_hits:
            print(f"KNOWN-FINDING: property={self.prop} {h['key']}: {h['what']}")
        for v in self.violations:
            print(f"VIOLATION property={self.prop} replay={v['path']}")
            print(f"  {v['key']}: {v['what']}")
        if self.errors:
            for e in self.errors[:10]:
                print(f'HARNESS-ERROR property={self.prop} {e}', file=sys.stderr)
            print(f'INCONCLUSIVE property={self.prop}: {len(self.errors)} harness error(s); see evidence', file=sys.stderr)
        if self.violations:
            return EXIT_VIOLATION
        if self.errors:
            return EXIT_INCONCLUSIVE
        print(f'OK property={self.prop} tier={self.tier} wall={wall:.1f}s '
              f"evaluations={cov.get('evaluations')} queries={cov.get('queries')}")
        return EXIT_OK


def _slug(s: str) -> str:
    return ''.join(c if c.isalnum() or c in '-_.' else '_' for c in s)[:100]


def cross_solver(samples: List[tuple], limit: int = 12, timeout_s: int = 20) -> dict:
    """Re-pose sampled queries (SMT-LIB2 text, z3-5.1 verdict) to /usr/bin/z3 4.8.12 and the cvc5 1.0.3 binary.

    A definite disagreement (sat vs unsat) or an `(error` line is reported; unknown / timeout is counted as undecided."""
    import random
    import shutil
    import tempfile

    rng = random.Random(seed())
    if len(samples) > limit:
        samples = rng.sample(samples, limit)
    out = {'sampled': len(samples), 'z3_4_8_12': {'agree': 0, 'undecided': 0}, 'cvc5_1_0_3': {'agree': 0, 'undecided': 0}, 'disagreements': []}
    if not samples:
        return out
    d = tempfile.mkdtemp(prefix='fsic_smt_')
    try:
        for i, (text, verdict) in enumerate(samples):
            path = os.path.join(d, f'q{i}.smt2')
            with open(path, 'w') as f:
                f.write('(set-logic ALL)\n' + text if '(set-logic' not in text else text)
            for name, cmd in (('z3_4_8_12', ['/usr/bin/z3', f'-T:{timeout_s}', path]),
                              ('cvc5_1_0_3', ['cvc5', f'--tlimit={timeout_s * 1000}', '--fp-exp', path])):
                if not shutil.which(cmd[0]):
                    out[name]['undecided'] += 1
                    continue
                try:
                    p = subprocess.run(cmd, capture_output=True, text=True, timeout=timeout_s + 10)
                    txt = (p.stdout + p.stderr).strip()
                except subprocess.TimeoutExpired:
                    txt = 'timeout'
                first = txt.splitlines()[0].strip() if txt else ''
                if '(error' in txt and first not in ('sat', 'unsat'):
                    out[name]['undecided'] += 1
                    out.setdefault('errors', []).append(f'{name}: {txt[:160]}')
                elif first in ('sat', 'unsat'):
                    if first == verdict:
                        out[name]['agree'] += 1
                    else:
                        out['disagreements'].append({'solver': name, 'said': first, 'z3_5_1_said': verdict, 'query': i})
                else:
                    out[name]['undecided'] += 1
    finally:
        shutil.rmtree(d, ignore_errors=True)
    return out
