"""gram.enum -- bounded-exhaustive enumeration of expression trees and seeded
sampling of larger multi-equation programs."""
from __future__ import annotations

import itertools
import random
from typing import Any, Dict, Iterable, Iterator, List, Optional, Sequence, Tuple

from gram import Bin, BoolOp, Call, Cmp, Eq, IfE, Neg, Not, Num, Program, Var, Verb, size

# vocabulary ---------------------------------------------------------------------
ATOMS_QUICK: List[Any] = [
    Var('X'), Var('X', off=-1), Var('Z', off=1), Var('Y', off=-1), Var('Y'),
    Var('alpha_1', 'p'), Var('e', 'e'), Num('2'), Num('0.5'),
    Var('beta', 'p', off=-2), Var('u', 'e', off=2),   # the deepest lag / furthest lead may sit on a parameter / error only
    Var('_a1', off=-1),   # special name shapes are crossed with a non-zero offset (seeded change C01_mut1)
]
ATOMS_FULL: List[Any] = ATOMS_QUICK + [
    Var('_a1'), Var('is_open'), Var('Pin', off=-2), Var('not_X'), Var('exp'), Var('log', off=-1), Var('max'),
    Var('X', off=-12), Var('Z', off=2), Var('beta', 'p', off=-1), Var('e', 'e', off=1), Num('1'), Num('10.25'),
    Var('type'), Var('match', off=-1), Var('_'),
    Var('x'), Var('t1'), Var('_p', 'p', off=-1), Var('_e', 'e', off=1), Var('is_open', off=1), Var('exp', off=-1),
]
BINOPS = ['+', '-', '*', '/', '**']
CALLS1 = ['exp', 'log', 'abs', 'np.sqrt', 'myexp']
CALLS2 = ['max', 'min']
CMPS = ['<', '<=', '>', '>=', '==', '!=']


def exprs_of_size(n: int, atoms: Sequence[Any], memo: Dict[int, List[Any]], *, cond: bool = True) -> List[Any]:
    """All expressions with exactly n nodes (numeric-valued)."""
    if n in memo:
        return memo[n]
    out: List[Any] = []
    if n == 1:
        out = list(atoms)
    else:
        for x in exprs_of_size(n - 1, atoms, memo, cond=cond):
            out.append(Neg(x))
            for f in CALLS1:
                out.append(Call(f, (x,)))
        for k in range(1, n - 1):
            for l in exprs_of_size(k, atoms, memo, cond=cond):
                for r in exprs_of_size(n - 1 - k, atoms, memo, cond=cond):
                    for op in BINOPS:
                        out.append(Bin(op, l, r))
                    for f in CALLS2:
                        out.append(Call(f, (l, r)))
        if cond and n >= 6:
            # conditional expressions: then if (a cmp b) else other  -> 1 + 1 + (1 + a + b) + 1 nodes minimum 6
            pass
    memo[n] = out
    return out


def conditional_exprs(atoms: Sequence[Any], rng: Optional[random.Random] = None, limit: Optional[int] = None) -> List[Any]:
    """Comparison / conditional shapes over atoms (a separate family: they fork)."""
    out: List[Any] = []
    a = list(atoms)
    for op in CMPS:
        for l, r in itertools.product(a[:4], a[:4]):
            if l != r:
                out.append(IfE(l, Cmp(op, l, r), r))
    for l, r in itertools.product(a[:5], a[:5]):
        if l != r:
            out.append(Bin('*', Cmp('>', l, r), l))  # bool -> float coercion
            out.append(IfE(Num('1'), BoolOp('and', Cmp('>', l, Num('0')), Cmp('<', r, Num('1'))), Num('0')))
            out.append(IfE(l, Not(Cmp('<', l, r)), r))
            out.append(IfE(l, BoolOp('or', Cmp('>=', l, r), Cmp('==', r, Num('0'))), Neg(r)))
    if limit is not None and rng is not None and len(out) > limit:
        out = rng.sample(out, limit)
    return out


def _ambiguous(text: str) -> bool:
    """Scripts in which a '<' comparison could be read as an <error> term, or vice versa."""
    import re

    masked = re.sub(r'<\s*[_A-Za-z][_A-Za-z0-9]*\s*>(?!=)', 'E', text)
    return bool(re.search(r'<\s*[_A-Za-z][_A-Za-z0-9]*\s*>', masked)) or False


def single_equation_programs(max_nodes: int, atoms: Sequence[Any], target: Var = Var('Y')) -> Iterator[Program]:
    memo: Dict[int, List[Any]] = {}
    for n in range(1, max_nodes + 1):
        for e in exprs_of_size(n, atoms, memo):
            yield (Eq(target, e),)


# multi-equation programs --------------------------------------------------------------
FIXED_PROGRAMS: List[Program] = [
    # Gauss-Seidel order, shared variables, lags and leads, parameters and errors
    (Eq(Var('C'), Bin('+', Bin('*', Var('alpha_1', 'p'), Var('YD')), Bin('*', Var('alpha_2', 'p'), Var('H', off=-1)))),
     Eq(Var('YD'), Bin('-', Var('Y'), Var('T'))),
     Eq(Var('Y'), Bin('+', Var('C'), Var('G'))),
     Eq(Var('T'), Bin('*', Var('theta', 'p'), Var('Y'))),
     Eq(Var('H'), Bin('+', Var('H', off=-1), Bin('-', Var('YD'), Var('C'))))),
    (Eq(Var('A'), Bin('+', Var('B'), Num('1'))), Eq(Var('B'), Bin('*', Var('A'), Num('2')))),
    (Eq(Var('A'), Bin('+', Var('B', off=1), Var('e', 'e'))), Eq(Var('B'), Bin('-', Var('A', off=-2), Var('X')))),
    # a variable first seen on a right-hand side, later defined
    (Eq(Var('Y'), Bin('+', Var('W'), Var('X', off=-1))), Eq(Var('W'), Bin('*', Var('X'), Var('g', 'p')))),
    # a lone variable on the right, itself defined by a later equation; the same texts appear on both sides across
    # equations (a parser that remembers how it classified a text would mis-type one of them: seeded change C01_r3mut1)
    (Eq(Var('Y'), Var('X')), Eq(Var('X'), Bin('*', Var('Z'), Num('2')))),
    (Eq(Var('A'), Var('B')), Eq(Var('C'), Var('A')), Eq(Var('B'), Var('C', off=-1))),
    # names that collide with functions / keywords prefixes
    (Eq(Var('exp'), Bin('+', Var('log'), Var('max', off=-1))), Eq(Var('min'), Bin('*', Var('exp'), Var('log', off=-2)))),
    (Eq(Var('is_open'), Bin('+', Var('Pin', off=-1), Var('not_X'))), Eq(Var('not_X'), Neg(Var('is_open', off=-1)))),
    (Eq(Var('Y'), Call('myexp', (Call('exp', (Var('X'),)),))),),
    (Eq(Var('Y'), Call('np.sqrt', (Call('abs', (Bin('-', Var('X'), Var('Z', off=-3)),)),))),),
    # namespaced functions whose dotted components contain digits are functions too (seeded change C01_r3mut2)
    (Eq(Var('Y'), Bin('+', Call('np.log10', (Var('X'),)), Call('np.log1p', (Var('Z', off=-1),)))),),
    (Eq(Var('Y'), Call('np.arctan2', (Var('X'), Call('np.expm1', (Var('Y', off=-1),))))), Eq(Var('W'), Call('np.log2', (Var('Y'),)))),
    # namespaced USER functions whose last component is spelt like a function fsic replaces (exp, log, max, min): untouched
    (Eq(Var('Y'), Bin('+', Call('my.exp', (Var('X'),)), Call('my.log', (Var('Z', off=-1),)))),),
    (Eq(Var('Y'), Call('my.max', (Var('X'), Call('my.min', (Var('Z'), Var('W', off=-1)))))), Eq(Var('V'), Call('max', (Call('my.exp', (Var('Y'),)), Var('X'))))),
    # the same equation twice is one equation
    (Eq(Var('Y'), Bin('+', Var('X'), Num('1'))), Eq(Var('Y'), Bin('+', Var('X'), Num('1')))),
    # soft keywords and the bare underscore are ordinary identifiers (seeded change C01_r2mut2)
    (Eq(Var('Y'), Bin('+', Var('match', off=-1), Var('type'))), Eq(Var('case'), Bin('*', Var('_'), Num('2')))),
    # a name and the same name with a leading underscore are two variables (the storage slot of N is `_N`: code that looks
    # `_N` up as an attribute finds N's data -- seeded change C20_r5mut1)
    (Eq(Var('Y'), Bin('+', Var('_N', off=-1), Var('N'))), Eq(Var('_N'), Bin('*', Var('X'), Num('2')))),
    (Eq(Var('_a'), Bin('+', Var('a', off=-1), Var('X'))), Eq(Var('a'), Bin('-', Var('_a'), Var('Z', off=1)))),
    # long right-hand side
    (Eq(Var('S'), Bin('+', Bin('+', Bin('+', Var('a'), Var('b', off=-1)), Bin('*', Var('c', off=2), Var('k', 'p'))),
                      Bin('/', Var('d'), Bin('-', Var('f', off=-4), Num('3'))))),),
]

# (history, program): programs parsed / built EARLIER in the same process, then the program under test.  The earlier
# ones share texts with it -- the same characters once blanks are removed but another split into tokens, the same names
# at other offsets, the same left-hand side with another right-hand side, a side text met first in another role -- so
# that anything the parser or builder remembers between calls (a memo keyed too coarsely) is visible as a wrong result.
def _p(*eqs):
    return tuple(eqs)


HISTORY_PAIRS: List[tuple] = []
for _a, _b in [
    (_p(Eq(Var('Y'), Not(Var('X')))), _p(Eq(Var('Y'), Var('notX')))),
    (_p(Eq(Var('Y'), BoolOp('and', Var('A'), Var('B')))), _p(Eq(Var('Y'), Var('AandB')))),
    (_p(Eq(Var('Y'), BoolOp('or', Var('A'), Var('B')))), _p(Eq(Var('Y'), Var('AorB')))),
    (_p(Eq(Var('Y'), IfE(Var('X'), Var('Z'), Var('W')))), _p(Eq(Var('Y'), Var('XifZelseW')))),
    (_p(Eq(Var('Y'), Bin('+', Var('X', off=-1), Var('Z')))), _p(Eq(Var('Y'), Bin('+', Var('X'), Var('Z', off=-1))))),
    (_p(Eq(Var('Y'), Bin('+', Var('X'), Var('Z', off=-1)))), _p(Eq(Var('Y'), Bin('-', Bin('*', Var('a', 'p'), Var('W', off=1)), Var('e', 'e'))))),
    (_p(Eq(Var('Y'), Var('C'))), _p(Eq(Var('C'), Bin('+', Bin('*', Var('a', 'p'), Var('Y', off=-1)), Var('G'))))),
    (_p(Eq(Var('Y'), Bin('*', Var('X'), Num('2')))), _p(Eq(Var('Y'), Bin('*', Var('X', 'p'), Num('2'))))),
    (_p(Eq(Var('Y'), Call('exp', (Var('X'),)))), _p(Eq(Var('Y'), Bin('*', Var('exp'), Var('X'))))),
    (_p(Eq(Var('A'), Bin('+', Var('B'), Num('1'))), Eq(Var('B'), Var('X'))), _p(Eq(Var('B'), Bin('+', Var('A'), Num('1'))), Eq(Var('A'), Var('X')))),
]:
    HISTORY_PAIRS.append(((_a,), _b))
    HISTORY_PAIRS.append(((_b,), _a))
    HISTORY_PAIRS.append(((_b, _b), _b))    # and simply the same program for the third time


VERBATIM_PROGRAMS: List[Program] = [
    # partial verbatim fragments are inserted untouched, inner spacing included (seeded change C01_r2mut1)
    (Eq(Var('Y'), Bin('*', Var('X'), Verb("len('a  b')", expr=Num('4')))),),
    (Eq(Var('Y'), Bin('+', Var('Z'), Bin('*', Verb('self._X[t]', expr=Var('X')), Num('2')))), Eq(Var('W'), Var('X'))),
    (Eq(Var('Y'), Bin('-', Verb('max( self._X[t] ,  0.5 )', expr=Call('max', (Var('X'), Num('0.5')))), Var('Z'))), Eq(Var('W'), Var('X', off=-1))),
]

ILLEGAL_PROGRAMS: List[Program] = [
    (Eq(Var('Y'), Bin('+', Var('X'), Var('X', 'p'))),),                      # variable and parameter
    (Eq(Var('Y'), Bin('+', Var('e', 'e'), Var('e'))),),                      # error and variable
    (Eq(Var('Y'), Var('X')), Eq(Var('X'), Var('Y', 'p'))),                   # endogenous and parameter
    (Eq(Var('Y'), Var('X')), Eq(Var('Y'), Bin('+', Var('X'), Num('1')))),    # double definition
    (Eq(Var('Y'), Var('a', 'p')), Eq(Var('Z'), Var('a', 'e'))),              # parameter and error
]


def fork_nodes(prog: Program) -> int:
    """Nodes at which symbolic execution forks (comparisons, max/min, boolean operators)."""
    from gram import walk

    n = 0
    for eq in prog:
        for x in walk(eq.expr):
            if isinstance(x, (Cmp, BoolOp, Not)) or (isinstance(x, Call) and x.fn in CALLS2):
                n += 1
    return n


def sample_program(rng: random.Random, atoms: Sequence[Any], n_eq: int, depth: int) -> Program:
    names = ['A', 'B', 'C'][:n_eq]
    pool = list(atoms) + [Var(n) for n in names] + [Var(n, off=-1) for n in names]

    def gen(d: int) -> Any:
        if d <= 0 or rng.random() < 0.25:
            return rng.choice(pool)
        k = rng.random()
        if k < 0.55:
            return Bin(rng.choice(BINOPS), gen(d - 1), gen(d - 1))
        if k < 0.65:
            return Neg(gen(d - 1))
        if k < 0.8:
            return Call(rng.choice(CALLS1), (gen(d - 1),))
        if k < 0.9:
            return Call(rng.choice(CALLS2), (gen(d - 1), gen(d - 1)))
        return IfE(gen(d - 1), Cmp(rng.choice(CMPS), gen(d - 2), gen(d - 2)), gen(d - 1))

    return tuple(Eq(Var(n), gen(depth)) for n in names)


def consistent(prog: Program) -> bool:
    """Programs whose names are used with one kind only and defined once (the
    legal ones); illegal ones are exercised separately on purpose."""
    from gram import RefError, classify

    try:
        classify(prog)
        return True
    except RefError:
        return False
