"""gram.pipeline -- per-program obligations shared by C01, C03, C04(a), C14,
C15, C20: parse + build the real class, run its generated `_evaluate()` on
symbolic series (symbolic cells, period t, span length L) next to the AST
reference interpreter, and pose the equivalence / frame / no-wrap queries.
"""
from __future__ import annotations

import time
import warnings
from typing import Any, Callable, Dict, List, Optional, Tuple

import numpy as np
import z3

import fsic
import fsic.parser as fparser
from gram import (Call, Env, Eq, Layout, Program, RefError, Var, Verb, classify, deps, functions_used, interp, render,
                  run_reference, walk)
from symx.core import Ctx, Inconclusive, PathAbort, cur, timed_check
from symx.values import F64, SBool, SFloat, SInt, _sf, fpval, model_float, model_int, to_ieee
from symx.zseries import ZSeries

UF_MYEXP = z3.Function('uf_myexp', F64, F64)


def _myexp(x):
    return SFloat(UF_MYEXP(_sf(x).t)) if not isinstance(x, (int, float, np.floating)) else float(np.exp(x)) + 1.0


def _c_myexp(x):
    return float(np.exp(x)) + 1.0


def _exp(x):
    if isinstance(x, (SFloat, SBool, SInt)):
        return _sf(x).exp()
    return np.exp(x)


def _log(x):
    if isinstance(x, (SFloat, SBool, SInt)):
        return _sf(x).log()
    return np.log(x)


def _sqrt(x):
    if isinstance(x, (SFloat, SBool, SInt)):
        return _sf(x).sqrt()
    return np.sqrt(x)


def _np_method(name):
    def f(*xs):
        if any(isinstance(x, (SFloat, SBool, SInt)) for x in xs):
            return getattr(_sf(xs[0]), name)(*xs[1:])
        return getattr(np, name)(*xs)
    return f


REF_FUNCS: Dict[str, Callable] = {
    'exp': _exp, 'log': _log, 'max': max, 'min': min, 'abs': abs, 'np.sqrt': _sqrt, 'myexp': _myexp,
    'np.log10': _np_method('log10'), 'np.log1p': _np_method('log1p'), 'np.expm1': _np_method('expm1'), 'np.log2': _np_method('log2'),
    'np.arctan2': _np_method('arctan2'),
}


# a USER namespace whose members are named like the functions fsic replaces (exp, log, max, min): `my.exp(x)` is a
# namespaced function and must be left alone, not turned into np.exp(x) / max(...)
UF_MY = {n: z3.Function('uf_my_' + n, F64, F64) for n in ('exp', 'log')}
UF_MY2 = {n: z3.Function('uf_my_' + n, F64, F64, F64) for n in ('max', 'min')}


def _my1(name):
    def f(x):
        if isinstance(x, (int, float, np.floating)):
            return _c_my1(name)(x)
        return SFloat(UF_MY[name](_sf(x).t))
    return f


def _my2(name):
    def f(a, b):
        if all(isinstance(v, (int, float, np.floating)) for v in (a, b)):
            return _c_my2(name)(a, b)
        return SFloat(UF_MY2[name](_sf(a).t, _sf(b).t))
    return f


def _c_my1(name):
    return (lambda x: float(x) * 3.0 + 0.25) if name == 'exp' else (lambda x: float(x) * 0.5 - 1.75)


def _c_my2(name):
    return (lambda a, b: float(a) + 2.0 * float(b)) if name == 'max' else (lambda a, b: 3.0 * float(a) - float(b))


class _Namespace:
    pass


MY_SYM = _Namespace()
MY_CON = _Namespace()
for _n in ('exp', 'log'):
    setattr(MY_SYM, _n, _my1(_n))
    setattr(MY_CON, _n, _c_my1(_n))
for _n in ('max', 'min'):
    setattr(MY_SYM, _n, _my2(_n))
    setattr(MY_CON, _n, _c_my2(_n))
for _n in ('exp', 'log', 'max', 'min'):
    REF_FUNCS['my.' + _n] = getattr(MY_SYM, _n)


def install_user_functions() -> None:
    """`myexp` and the namespace `my` are user code the generated code finds in fsic.parser's globals."""
    fparser.myexp = _myexp
    fparser.my = MY_SYM


class _NS:
    """`self` stand-in for evaluating normalised equation text / verbatim code."""


def _outcome(fn) -> Tuple[str, Any]:
    try:
        with warnings.catch_warnings():
            warnings.simplefilter('ignore')
            fn()
        return ('ok', None)
    except Exception as e:  # noqa: BLE001 - PathAbort is BaseException
        return ('exc', type(e).__name__)


def parse_and_build(text: str, **build_kw) -> Dict[str, Any]:
    out: Dict[str, Any] = {}
    try:
        with warnings.catch_warnings():
            warnings.simplefilter('ignore')
            symbols = fsic.parse_model(text)
            Model = fsic.build_model(symbols, **build_kw)
    except Exception as e:  # noqa: BLE001
        out['error'] = type(e).__name__
        out['msg'] = str(e)[:200]
        return out
    out['symbols'] = symbols
    out['Model'] = Model
    return out


def static_compare(prog: Program, ref: Dict[str, Any], Model, symbols) -> List[str]:
    """C03 side assertion: lists, order, LAGS/LEADS, per-symbol lags/leads."""
    bad = []
    for attr, key in (('ENDOGENOUS', 'endogenous'), ('EXOGENOUS', 'exogenous'), ('PARAMETERS', 'parameters'),
                      ('ERRORS', 'errors'), ('NAMES', 'names')):
        if list(getattr(Model, attr)) != ref[key]:
            bad.append(f'{attr} impl={list(getattr(Model, attr))} ref={ref[key]}')
    if list(Model.CHECK) != ref['endogenous']:
        bad.append(f'CHECK impl={list(Model.CHECK)} ref={ref["endogenous"]}')
    if Model.LAGS != ref['lags']:
        bad.append(f'LAGS impl={Model.LAGS} ref={ref["lags"]}')
    if Model.LEADS != ref['leads']:
        bad.append(f'LEADS impl={Model.LEADS} ref={ref["leads"]}')
    T = fparser.Type
    named = [s for s in symbols if s.type in (T.ENDOGENOUS, T.EXOGENOUS, T.PARAMETER, T.ERROR)]
    if [s.name for s in named] != ref['first']:
        bad.append(f'symbol order impl={[s.name for s in named]} ref={ref["first"]}')
    for s in named:
        if s.name in ref['sym_lags'] and (s.lags, s.leads) != (ref['sym_lags'][s.name], ref['sym_leads'][s.name]):
            bad.append(f'symbol {s.name}: lags/leads impl={(s.lags, s.leads)} ref={(ref["sym_lags"][s.name], ref["sym_leads"][s.name])}')
    fn_syms = [s.name for s in symbols if s.type == T.FUNCTION]
    if fn_syms != functions_used(prog):
        bad.append(f'function symbols impl={fn_syms} ref={functions_used(prog)}')
    return bad


# ---------------------------------------------------------------------------
def equivalence(prog: Program, ref: Dict[str, Any], Model, symbols, *, spelling: str = 'pos', check_text: bool = True,
                check_reads: bool = True, runner: Optional[Callable] = None, budget_s: float = 60,
                max_candidates: int = 2, range_from: str = 'reference', ref_runner: Optional[Callable] = None,
                query_timeout_ms: Optional[int] = None) -> Dict[str, Any]:
    """Explore `_evaluate(t)` on symbolic series against the AST interpreter.

    Returns stats, `bad` (list of replay-able discrepancy records).
    spelling: 'pos' (lags <= t <= L-1-leads) or 'neg' (the same periods written t-L).
    runner(model, t): alternative way of running the implementation side (C15 variants).
    """
    install_user_functions()
    import vlib as _vlib
    if _vlib.tier() == 'quick':
        budget_s = min(budget_s, 25)
        query_timeout_ms = query_timeout_ms or 10000
    ctx = Ctx(budget_s=budget_s, timeout_ms=query_timeout_ms or 20000)
    names = list(dict.fromkeys(ref['names'] + list(Model.NAMES)))
    lags, leads = ref['lags'], ref['leads']
    if range_from == 'model':
        # C04(a): the periods the real iter_periods() yields for the model's own LAGS/LEADS (C03.3 ties the
        # default range to these attributes); a too-small LAGS must show up as a wrapped / out-of-span access
        lags, leads = int(Model.LAGS), int(Model.LEADS)
    tz, Lz = z3.Int('t'), z3.Int('L')
    ctx.assume(Lz >= lags + leads + 1, f'L >= lags+leads+1 = {lags + leads + 1} ({range_from} lags/leads)')
    if spelling == 'pos':
        ctx.assume(z3.And(tz >= lags, tz <= Lz - 1 - leads), 'lags <= t <= L-1-leads (feasible period, positive spelling)')
    else:
        ctx.assume(z3.And(tz >= lags - Lz, tz <= -1 - leads), 'lags-L <= t <= -1-leads (feasible period, negative spelling)')
    post = z3.If(tz < 0, tz + Lz, tz)
    has_verb = any(isinstance(n, Verb) for eq in prog for n in walk(eq.expr))
    eq_symbols = [s for s in symbols if s.type == fparser.Type.ENDOGENOUS and s.equation is not None]

    def series_set(log):
        return {n: ZSeries(n, Lz, log) for n in names}

    def fn():
        t, c = SInt(tz), cur()
        rec: Dict[str, Any] = {'bad': [], 'terms': []}
        # implementation
        ilog: list = []
        m = Model(range(max(1, Model.LAGS + Model.LEADS + 1)))
        iser = series_set(ilog)
        for n in names:
            m.__dict__['_' + n] = iser[n]
        if runner is None:
            io = _outcome(lambda: m._evaluate(t))
        else:
            io = _outcome(lambda: runner(m, t))
        # reference
        rlog: list = []
        rser = series_set(rlog)
        ro = _outcome(lambda: (ref_runner or run_reference)(prog, Env(rser, t, REF_FUNCS)))
        rec['io'], rec['ro'] = io, ro
        if io != ro:
            rec['bad'].append(f'outcome impl={io} ref={ro}')
        else:
            for n in names:
                a, b = iser[n].arr, rser[n].arr
                if not a.eq(b) and c._check(a != b) == 'sat':
                    rec['bad'].append(f'series {n} differs after the pass')
                    rec['terms'].append(a != b)
        # writes: exactly the targets
        iw = sorted({(nm) for k, nm, _, _ in ilog if k == 'w'})
        rw = sorted({(nm) for k, nm, _, _ in rlog if k == 'w'})
        if io == ro and iw != rw:
            rec['bad'].append(f'written series impl={iw} ref={rw}')
        # reads never wrap and address t+k (C04a)
        if check_reads and io[0] == 'ok':
            offs: Dict[str, set] = {}
            for eq in prog:
                for nm, k in deps(eq, into_verbatim=True):
                    offs.setdefault(nm, set()).add(k)
                offs.setdefault(eq.target.name, set()).add(eq.target.off)
            for k, nm, it, eff in ilog:
                ks = sorted(offs.get(nm, set()))
                if not ks:
                    rec['bad'].append(f'access to series {nm} that the script does not mention')
                    continue
                good = z3.Or(*[z3.And(eff == post + kk, post + kk >= 0, post + kk < Lz, it == tz + kk) for kk in ks])
                if c._check(z3.Not(good)) == 'sat':
                    rec['bad'].append(f'{"read" if k == "r" else "write"} of {nm} not at t+k inside the span (k in {ks})')
                    rec['terms'].append(z3.Not(good))
        # normalised equation text denotes the same expression (C01 last sentence)
        if check_text and io == ro and io[0] == 'ok' and runner is None:
            tlog: list = []
            tser = series_set(tlog)
            selfobj = _NS()
            for n in names:
                setattr(selfobj, '_' + n, tser[n])
            ns = {'exp': _exp, 'log': _log, 'max': max, 'min': min, 'abs': abs, 'np': np,
                  'myexp': _myexp, 'my': MY_SYM, 'self': selfobj}
            ns.update(tser)  # series names win (programs using a name both ways are outside the grammar)
            ns['t'] = t

            def run_text():
                for s in eq_symbols:
                    exec(s.equation.replace('`', ''), ns)  # noqa: S102 - the normalised equation is Python syntax

            to = _outcome(run_text)
            if to != ro:
                rec['bad'].append(f'equation text outcome {to} vs reference {ro}')
            else:
                for n in names:
                    a, b = tser[n].arr, rser[n].arr
                    if not a.eq(b) and c._check(a != b) == 'sat':
                        rec['bad'].append(f'normalised equation text: series {n} differs')
                        rec['terms'].append(a != b)
        rec['n_reads'] = sum(1 for k, *_ in ilog if k == 'r')
        return rec

    out: Dict[str, Any] = {'paths': 0, 'bad': [], 'mismatch_paths': 0, 'spurious': 0}
    for path in ctx.explore(fn):
        out['paths'] += 1
        if path.outcome[0] == 'exc':
            raise RuntimeError(f'harness raised: {path.outcome[1]!r}')
        rec = path.outcome[1]
        if rec['bad']:
            out['mismatch_paths'] += 1
            if len(out['bad']) >= max_candidates:
                continue
            w = _witness(ctx, names, rec['terms'])
            if w is None:
                out['spurious'] += 1
                continue
            out['bad'].append({'symbolic': rec['bad'], 'witness': w})
    out['exhausted'] = ctx.exhausted
    out['stats'] = ctx.stats.as_dict()
    out['assumptions'] = list(ctx.assumptions)
    return out


def _witness(ctx: Ctx, names: List[str], extra: list) -> Optional[dict]:
    """Concrete t, L and series values for a mismatching path.

    First choice: a model of the path condition under IEEE-754 semantics (short
    timeout).  If z3 cannot decide that in time, fall back to the model under the
    uninterpreted abstraction: its cell values are still concrete inputs, and the
    replay on the real code -- not the solver -- is what decides whether a
    VIOLATION is printed; a non-reproducing candidate is reported as inconclusive.
    """
    Lz = z3.Int('L')

    def attempt(ieee: bool, cap: bool, timeout_ms: int):
        s = z3.Solver()
        s.set('timeout', timeout_ms)
        cache: dict = {}
        conv = (lambda a: to_ieee(a, cache)) if ieee else (lambda a: a)
        for a in ctx.solver.assertions():
            s.add(conv(a))
        if extra:
            s.add(conv(z3.Or(*extra)))
        if cap:
            s.add(Lz <= 12)
        t0 = time.time()
        r = timed_check(s, timeout_ms / 1000.0)
        ctx.stats.solver_s += time.time() - t0
        ctx.stats.queries[r] = ctx.stats.queries.get(r, 0) + 1
        return r, s

    mode = 'ieee'
    r, s = attempt(True, True, 5000)
    if r == 'unsat':
        r, s = attempt(True, False, 5000)
        if r == 'unsat':
            return None
    if r != 'sat':
        mode = 'uf-model'
        r, s = attempt(False, True, 10000)
        if r != 'sat':
            r, s = attempt(False, False, 10000)
        if r != 'sat':
            raise Inconclusive('no witness: IEEE query undecided and UF query ' + r)
    m = s.model()
    L = model_int(m, Lz)
    t = model_int(m, z3.Int('t'))
    if L > 4096:
        raise Inconclusive(f'witness needs a span of length {L}')
    w = {'t': t, 'L': L, 'series': {}, 'witness_mode': mode}
    for n in names:
        arr = z3.Array(f'{n}!0', z3.IntSort(), F64)
        w['series'][n] = [model_float(m, z3.Select(arr, z3.IntVal(j))) for j in range(L)]
    return w


# ---------------------------------------------------------------------------
def replay_values(prog: Program, Model, w: dict, runner: Optional[Callable] = None, seed: int = 0,
                  symbols=None, ref_runner: Optional[Callable] = None) -> List[str]:
    """Concrete check on real float64 arrays with real NumPy: one pass of the
    generated code vs the AST interpreter on plain floats.  The witness' values
    are tried first, then a few seeded random finite vectors."""
    import random

    bad: List[str] = []
    rng = random.Random(seed)
    L, t = w['L'], w['t']
    names = list(w['series'])
    fparser.myexp = _c_myexp
    fparser.my = MY_CON
    try:
        for trial in range(4):
            data = {n: (list(w['series'][n]) if trial == 0 else [rng.uniform(0.5, 3.0) for _ in range(L)]) for n in names}
            # NaN cells of the model are "don't care": give them distinct finite values
            for n in names:
                data[n] = [x if x == x and abs(x) != float('inf') else rng.uniform(0.5, 3.0) for x in data[n]] if trial else data[n]
            m = Model(range(L))
            for n in names:
                if n in m.__dict__.get('index', []):
                    m.__dict__['_' + n] = np.array(data[n], dtype=float)
            ser = {n: np.array(data[n], dtype=float) for n in names}

            def impl():
                if runner is None:
                    m._evaluate(t)
                else:
                    runner(m, t)

            with np.errstate(all='ignore'):
                io = _outcome(impl)
                funcs = dict(REF_FUNCS)
                funcs['myexp'] = _c_myexp
                for _k in ('exp', 'log', 'max', 'min'):
                    funcs['my.' + _k] = getattr(MY_CON, _k)
                ro = _outcome(lambda: (ref_runner or run_reference)(prog, Env(ser, t, funcs, strict_L=L)))
            if io != ro:
                bad.append(f'trial {trial}: outcome impl={io} ref={ro} (t={t}, L={L})')
                break
            for n in names:
                if n not in m.__dict__.get('index', []):
                    continue
                a, b = m.__dict__['_' + n], ser[n]
                same = all((x == y) or (x != x and y != y) for x, y in zip(a, b))
                if not same:
                    bad.append(f'trial {trial}: series {n} impl={list(map(float, a))} ref={list(map(float, b))} (t={t}, L={L})')
                    break
            if bad:
                break
            if symbols is not None and runner is None and io[0] == 'ok':
                tser = {n: np.array(data[n], dtype=float) for n in names}
                selfobj = _NS()
                for n in names:
                    setattr(selfobj, '_' + n, tser[n])
                ns = {'exp': np.exp, 'log': np.log, 'max': max, 'min': min, 'abs': abs, 'np': np, 'myexp': _c_myexp, 'my': MY_CON,
                      'self': selfobj}
                ns.update(tser)
                ns['t'] = t

                def run_text():
                    for s_ in symbols:
                        if s_.type == fparser.Type.ENDOGENOUS and s_.equation is not None:
                            exec(s_.equation.replace('`', ''), ns)  # noqa: S102

                with np.errstate(all='ignore'):
                    to = _outcome(run_text)
                if to != ro:
                    bad.append(f'trial {trial}: equation text outcome {to} vs reference {ro}')
                    break
                for n in names:
                    same = all((x == y) or (x != x and y != y) for x, y in zip(tser[n], ser[n]))
                    if not same:
                        bad.append(f'trial {trial}: equation text: series {n} text={list(map(float, tser[n]))} ref={list(map(float, ser[n]))}')
                        break
                if bad:
                    break
    finally:
        install_user_functions()
    return bad
