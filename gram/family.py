"""gram.family -- program sets per tier and the per-program worker used by the
parser-family checks (C01, C03, C04a, C14, C15, C20)."""
from __future__ import annotations

import random
import time
from typing import Any, Dict, List, Optional, Tuple

from gram import (LAYOUTS, Call, Eq, Layout, Program, RefError, Var, classify, render, render_expr, renderer_selfcheck,
                  walk)
from gram import enum as genum


def uses_name_as_function_and_variable(prog: Program) -> bool:
    fns = {n.fn for eq in prog for n in walk(eq.expr) if isinstance(n, Call)}
    vs = {n.name for eq in prog for n in walk(eq.expr) if isinstance(n, Var)} | {eq.target.name for eq in prog}
    return bool(fns & vs)


def program_set(tier: str, seed: int, *, max_nodes_quick: int = 3, max_nodes_thorough: int = 4,
                samples_quick: int = 200, samples_thorough: int = 2000, cap: Optional[int] = None) -> Dict[str, List[Program]]:
    rng = random.Random(seed)
    atoms = genum.ATOMS_QUICK if tier == 'quick' else genum.ATOMS_FULL
    max_nodes = max_nodes_quick if tier == 'quick' else max_nodes_thorough
    exhaustive = list(genum.single_equation_programs(max_nodes, atoms))
    if tier == 'thorough' and max_nodes >= 4:
        # size-4 trees over the full vocabulary are ~10^6: keep size<=3 exhaustive over the full vocabulary and
        # size 4 exhaustive over the reduced one
        small = list(genum.single_equation_programs(3, atoms))
        four = [p for p in genum.single_equation_programs(4, genum.ATOMS_QUICK) if True]
        exhaustive = small + [p for p in four if p not in set()]
    conds = [(Eq(Var('Y'), e),) for e in genum.conditional_exprs(atoms[:6], rng, 150 if tier == 'quick' else 600)]
    sampled = []
    n_s = samples_quick if tier == 'quick' else samples_thorough
    tries = 0
    while len(sampled) < n_s and tries < 20 * n_s:
        tries += 1
        p = genum.sample_program(rng, genum.ATOMS_FULL, rng.choice([1, 2, 3]), rng.choice([2, 3, 4, 5]))
        if (genum.consistent(p) and not uses_name_as_function_and_variable(p)
                and genum.fork_nodes(p) <= (3 if tier == 'quick' else 5)):
            sampled.append(p)
    out = {
        'exhaustive': [p for p in exhaustive if not uses_name_as_function_and_variable(p)],
        'conditional': conds,
        'fixed': list(genum.FIXED_PROGRAMS),
        'sampled': sampled,
        'illegal': list(genum.ILLEGAL_PROGRAMS),
        'verbatim': list(genum.VERBATIM_PROGRAMS),   # partial verbatim fragments: C01 / C14 / C15 only
    }
    if cap:
        for k in ('exhaustive', 'conditional', 'sampled'):
            if len(out[k]) > cap:
                out[k] = rng.sample(out[k], cap)
    return out


def show(prog: Program) -> str:
    return render(prog, Layout()).strip().replace('\n', ' ; ')
