"""gram -- abstract programs of the fsic script language: AST, renderer with
layouts, reference semantics (interpreter over symbolic series), reference
classification, enumeration and seeded sampling (DESIGN 3.1).

The reference never sees script text: it is independent of term_re, Term and
parse_equation.
"""
from __future__ import annotations

import ast as pyast
import itertools
import random
from dataclasses import dataclass, field
from typing import Any, Callable, Dict, Iterable, List, Optional, Tuple

# ---------------------------------------------------------------------------
# AST


@dataclass(frozen=True)
class Var:
    name: str
    kind: str = 'v'  # 'v' variable | 'p' parameter | 'e' error
    off: int = 0


@dataclass(frozen=True)
class Num:
    text: str


@dataclass(frozen=True)
class Neg:
    x: Any


@dataclass(frozen=True)
class Bin:
    op: str
    l: Any
    r: Any


@dataclass(frozen=True)
class Call:
    fn: str
    args: Tuple[Any, ...]


@dataclass(frozen=True)
class Cmp:
    op: str
    l: Any
    r: Any


@dataclass(frozen=True)
class IfE:
    then: Any
    cond: Any
    other: Any


@dataclass(frozen=True)
class BoolOp:
    op: str  # 'and' | 'or'
    l: Any
    r: Any


@dataclass(frozen=True)
class Not:
    x: Any


@dataclass(frozen=True)
class Verb:
    """Verbatim fragment inside an expression: `text` (inserted untouched)."""
    text: str
    reads: Tuple[Var, ...] = ()  # for the reference: what the fragment denotes
    expr: Any = None


@dataclass(frozen=True)
class Eq:
    target: Var
    expr: Any


Program = Tuple[Eq, ...]

REPLACED = {'exp', 'log', 'max', 'min'}


def size(e: Any) -> int:
    if isinstance(e, (Var, Num, Verb)):
        return 1
    if isinstance(e, (Neg, Not)):
        return 1 + size(e.x)
    if isinstance(e, (Bin, Cmp, BoolOp)):
        return 1 + size(e.l) + size(e.r)
    if isinstance(e, Call):
        return 1 + sum(size(a) for a in e.args)
    if isinstance(e, IfE):
        return 1 + size(e.then) + size(e.cond) + size(e.other)
    raise TypeError(e)


def walk(e: Any) -> Iterable[Any]:
    yield e
    if isinstance(e, (Neg, Not)):
        yield from walk(e.x)
    elif isinstance(e, (Bin, Cmp, BoolOp)):
        yield from walk(e.l)
        yield from walk(e.r)
    elif isinstance(e, Call):
        for a in e.args:
            yield from walk(a)
    elif isinstance(e, IfE):
        # textual order: then, cond, other
        yield from walk(e.then)
        yield from walk(e.cond)
        yield from walk(e.other)
    elif isinstance(e, Verb) and e.expr is not None:
        pass


# ---------------------------------------------------------------------------
# Renderer


@dataclass
class Layout:
    name: str = 'plain'
    sp: str = ' '              # whitespace around binary operators
    inner_brace: str = ''      # spaces inside { }
    inner_angle: str = ''      # spaces inside < >
    inner_index: str = ''      # spaces inside [ ]
    explicit_zero: bool = False   # write [0] for the current period
    plus_sign: bool = False       # write leads as [+k]
    call_space: str = ''       # space between function name and (
    paren_sp: str = ''         # space just inside parentheses
    comma: str = ', '
    wrap_rhs: bool = False     # parenthesise the right-hand side and break lines at top-level operators
    comment: Optional[str] = None   # trailing comment on each statement
    lead_comment: bool = False      # a comment line before each statement
    blank_lines: int = 0       # blank lines between statements
    eq_sp: str = ' '           # spaces around '='
    unary_sp: str = ''         # space after unary minus
    comment_glue: bool = False  # the comment starts right after the last token (no blank before '#')


PREC = {'if': 1, 'or': 2, 'and': 3, 'not': 4, 'cmp': 5, '+': 6, '-': 6, '*': 7, '/': 7, 'neg': 8, '**': 9, 'atom': 10}


def _prec(e: Any) -> int:
    if isinstance(e, IfE):
        return PREC['if']
    if isinstance(e, BoolOp):
        return PREC[e.op]
    if isinstance(e, Not):
        return PREC['not']
    if isinstance(e, Cmp):
        return PREC['cmp']
    if isinstance(e, Bin):
        return PREC[e.op]
    if isinstance(e, Neg):
        return PREC['neg']
    if isinstance(e, Num) and e.text.startswith('-'):
        return PREC['neg']
    return PREC['atom']


def render_term(v: Var, lay: Layout) -> str:
    if v.kind == 'p':
        s = '{' + lay.inner_brace + v.name + lay.inner_brace + '}'
    elif v.kind == 'e':
        s = '<' + lay.inner_angle + v.name + lay.inner_angle + '>'
    else:
        s = v.name
    if v.off == 0 and not lay.explicit_zero:
        return s
    if v.off > 0 and lay.plus_sign:
        idx = f'+{v.off}'
    else:
        idx = str(v.off)
    return s + '[' + lay.inner_index + idx + lay.inner_index + ']'


def render_expr(e: Any, lay: Layout, atom: Optional[Callable[[Var], str]] = None, top_break: bool = False) -> str:
    atom = atom or (lambda v: render_term(v, lay))

    def par(x: Any, need: int, strict: bool = False) -> str:
        s = r(x)
        p = _prec(x)
        if p < need or (strict and p == need):
            return '(' + lay.paren_sp + s + lay.paren_sp + ')'
        return s

    def r(x: Any) -> str:
        if isinstance(x, Var):
            return atom(x)
        if isinstance(x, Num):
            return x.text
        if isinstance(x, Verb):
            return '`' + x.text + '`'
        if isinstance(x, Neg):
            return '-' + lay.unary_sp + par(x.x, PREC['neg'])
        if isinstance(x, Not):
            return 'not ' + par(x.x, PREC['not'])
        if isinstance(x, Bin):
            p = PREC[x.op]
            if x.op == '**':
                return par(x.l, p, strict=True) + lay.sp + '**' + lay.sp + par(x.r, PREC['neg'])
            return par(x.l, p) + lay.sp + x.op + lay.sp + par(x.r, p, strict=True)
        if isinstance(x, Cmp):
            return par(x.l, PREC['cmp'], strict=True) + ' ' + x.op + ' ' + par(x.r, PREC['cmp'], strict=True)
        if isinstance(x, BoolOp):
            p = PREC[x.op]
            return par(x.l, p) + ' ' + x.op + ' ' + par(x.r, p, strict=True)
        if isinstance(x, IfE):
            return par(x.then, PREC['if'], strict=True) + ' if ' + par(x.cond, PREC['if'], strict=True) + ' else ' + par(x.other, PREC['if'])
        if isinstance(x, Call):
            return x.fn + lay.call_space + '(' + lay.paren_sp + lay.comma.join(r(a) for a in x.args) + lay.paren_sp + ')'
        raise TypeError(x)

    if top_break and isinstance(e, Bin) and e.op in '+-*/':
        p = PREC[e.op]
        return par(e.l, p) + lay.sp + e.op + '\n        ' + par(e.r, p, strict=True)
    return r(e)


def render_eq(eq: Eq, lay: Layout) -> str:
    lhs = render_term(eq.target, Layout(explicit_zero=lay.explicit_zero and False))
    if lay.wrap_rhs:
        rhs = '(' + render_expr(eq.expr, lay, top_break=True) + ')'
    else:
        rhs = render_expr(eq.expr, lay)
    s = lhs + lay.eq_sp + '=' + lay.eq_sp + rhs
    if lay.comment is not None:
        lines = s.split('\n')
        lines[0] = lines[0] + ('# ' if lay.comment_glue else '  # ') + lay.comment
        s = '\n'.join(lines)
    return s


def render(prog: Program, lay: Optional[Layout] = None) -> str:
    lay = lay or Layout()
    out = []
    for i, eq in enumerate(prog):
        if lay.lead_comment:
            out.append(f'# equation {i}: a comment with = and ( signs')
        out.append(render_eq(eq, lay))
        out.extend([''] * lay.blank_lines)
    return '\n'.join(out) + '\n'


LAYOUTS: List[Layout] = [
    Layout('plain'),
    Layout('tight', sp='', comma=',', eq_sp=''),
    Layout('wide', sp='  ', inner_brace=' ', inner_angle=' ', inner_index=' ', call_space=' ', paren_sp=' ', comma=' , ', eq_sp='  '),
    Layout('zero_index', explicit_zero=True, plus_sign=True),
    Layout('wrapped', wrap_rhs=True),
    Layout('commented', comment='note: X = (Y + 1', lead_comment=True, blank_lines=2),
    Layout('inner_only', inner_brace='  ', inner_angle=' ', inner_index='  '),
    Layout('tabs', sp='\t', eq_sp='\t'),
    Layout('wrapped_wide', wrap_rhs=True, sp='  ', inner_index=' ', comment='c'),
    Layout('unary_space', unary_sp=' ', explicit_zero=True),
    # inside the parentheses of a wrapped right-hand side a line may break anywhere: between a function name and its
    # bracket, just inside brackets, after commas (seeded change C14_r4mut2)
    Layout('wrapped_calls', wrap_rhs=True, call_space='\n      ', paren_sp='\n  ', comma=',\n    '),
    Layout('wrapped_calls_commented', wrap_rhs=True, call_space='  \n\t', comment='log (x'),
    # a comment glued to the last token; line breaks and blanks inside index brackets (seeded changes C14_r5mut1/2)
    Layout('glued_comment', comment='note G = 1', comment_glue=True),
    Layout('wrapped_glued', wrap_rhs=True, comment='c', comment_glue=True, inner_index='\n   ', explicit_zero=True),
    Layout('wrapped_index', wrap_rhs=True, inner_index='\n  '),
]


# shape for the renderer self-check --------------------------------------------
def shape(e: Any) -> Any:
    if isinstance(e, Var):
        return ('name', _pyname(e))
    if isinstance(e, Num):
        if e.text.startswith('-'):
            return ('neg', ('num', e.text[1:]))
        return ('num', e.text)
    if isinstance(e, Verb):
        return ('name', 'VERB')
    if isinstance(e, Neg):
        return ('neg', shape(e.x))
    if isinstance(e, Not):
        return ('not', shape(e.x))
    if isinstance(e, Bin):
        return ('bin', e.op, shape(e.l), shape(e.r))
    if isinstance(e, Cmp):
        return ('cmp', e.op, shape(e.l), shape(e.r))
    if isinstance(e, BoolOp):
        return ('bool', e.op, shape(e.l), shape(e.r))
    if isinstance(e, IfE):
        return ('if', shape(e.then), shape(e.cond), shape(e.other))
    if isinstance(e, Call):
        return ('call', e.fn, tuple(shape(a) for a in e.args))
    raise TypeError(e)


def _pyname(v: Var) -> str:
    o = f'm{-v.off}' if v.off < 0 else f'p{v.off}'
    return f'{v.kind}_{v.name}_{o}'


_PYOPS = {pyast.Add: '+', pyast.Sub: '-', pyast.Mult: '*', pyast.Div: '/', pyast.Pow: '**'}
_PYCMP = {pyast.Lt: '<', pyast.LtE: '<=', pyast.Gt: '>', pyast.GtE: '>=', pyast.Eq: '==', pyast.NotEq: '!='}


def _pyshape(n: pyast.AST) -> Any:
    if isinstance(n, pyast.Name):
        return ('name', n.id)
    if isinstance(n, pyast.Constant):
        return ('num', None)
    if isinstance(n, pyast.UnaryOp) and isinstance(n.op, pyast.USub):
        return ('neg', _pyshape(n.operand))
    if isinstance(n, pyast.UnaryOp) and isinstance(n.op, pyast.Not):
        return ('not', _pyshape(n.operand))
    if isinstance(n, pyast.BinOp):
        return ('bin', _PYOPS[type(n.op)], _pyshape(n.left), _pyshape(n.right))
    if isinstance(n, pyast.Compare) and len(n.ops) == 1:
        return ('cmp', _PYCMP[type(n.ops[0])], _pyshape(n.left), _pyshape(n.comparators[0]))
    if isinstance(n, pyast.BoolOp) and len(n.values) == 2:
        return ('bool', 'and' if isinstance(n.op, pyast.And) else 'or', _pyshape(n.values[0]), _pyshape(n.values[1]))
    if isinstance(n, pyast.IfExp):
        return ('if', _pyshape(n.body), _pyshape(n.test), _pyshape(n.orelse))
    if isinstance(n, pyast.Call):
        return ('call', pyast.unparse(n.func), tuple(_pyshape(a) for a in n.args))
    raise TypeError(pyast.dump(n))


def _numless(s: Any) -> Any:
    if isinstance(s, tuple):
        if s and s[0] == 'num':
            return ('num', None)
        return tuple(_numless(x) for x in s)
    return s


def renderer_selfcheck(e: Any, lay: Layout) -> bool:
    """The rendered text, with fsic terms replaced by plain names, parses (with
    Python's own grammar) to the generator's tree shape."""
    import re

    txt = render_expr(e, lay, atom=_pyname)
    txt = re.sub(r'`[^`]*`', 'VERB', txt)
    try:
        tree = pyast.parse(txt.replace('\n', ' '), mode='eval').body
    except SyntaxError:
        return False
    return _pyshape(tree) == _numless(shape(e))


# ---------------------------------------------------------------------------
# Reference classification (C03) and dependency sets (C20)


def mentions(prog: Program) -> List[Tuple[Var, bool]]:
    """All term mentions in textual order: (Var, is_lhs)."""
    out: List[Tuple[Var, bool]] = []
    for eq in prog:
        out.append((eq.target, True))
        for n in walk(eq.expr):
            if isinstance(n, Var):
                out.append((n, False))
    return out


class RefError(Exception):
    def __init__(self, kind: str, msg: str = '') -> None:
        super().__init__(msg)
        self.kind = kind  # 'SymbolError' | 'ParserError'


def classify(prog: Program) -> Dict[str, Any]:
    """Reference: four name lists (first-appearance order), lags, leads,
    functions; raises RefError for illegal programs."""
    first: List[str] = []
    kinds: Dict[str, set] = {}
    lhs: Dict[str, List[Eq]] = {}
    lags, leads = 0, 0
    offs: Dict[str, List[int]] = {}
    for v, is_lhs in mentions(prog):
        if v.name not in kinds:
            first.append(v.name)
            kinds[v.name] = set()
            offs[v.name] = []
        kinds[v.name].add(v.kind)
        offs[v.name].append(v.off)
        lags = min(lags, v.off)
        leads = max(leads, v.off)
    for eq in prog:
        lhs.setdefault(eq.target.name, []).append(eq)
    for n, ks in kinds.items():
        if len(ks) > 1:
            raise RefError('SymbolError', f'{n} used as {sorted(ks)}')
    for n, eqs in lhs.items():
        if kinds[n] != {'v'}:
            raise RefError('SymbolError', f'{n} assigned but not a variable')
        if len(set(eqs)) > 1:
            raise RefError('ParserError', f'{n} defined by two different equations')
    endo = [n for n in first if n in lhs]
    exo = [n for n in first if kinds[n] == {'v'} and n not in lhs]
    par = [n for n in first if kinds[n] == {'p'}]
    err = [n for n in first if kinds[n] == {'e'}]
    return {
        'endogenous': endo, 'exogenous': exo, 'parameters': par, 'errors': err,
        'names': endo + exo + par + err, 'lags': -lags, 'leads': leads,
        'sym_lags': {n: min(0, *o) if len(o) > 1 else min(0, o[0]) for n, o in offs.items()},
        'sym_leads': {n: max(0, *o) if len(o) > 1 else max(0, o[0]) for n, o in offs.items()},
        'first': first,
    }


def deps(eq: Eq, into_verbatim: bool = False) -> List[Tuple[str, int]]:
    """(name, offset) pairs read by the equation's right-hand side (C20).  With `into_verbatim` the reads a verbatim
    fragment denotes are included (the parser cannot see them, the evaluation performs them)."""
    out: List[Tuple[str, int]] = []

    def visit(e):
        for n in walk(e):
            if isinstance(n, Var) and (n.name, n.off) not in out:
                out.append((n.name, n.off))
            elif into_verbatim and isinstance(n, Verb) and n.expr is not None:
                visit(n.expr)

    visit(eq.expr)
    return out


def functions_used(prog: Program) -> List[str]:
    out: List[str] = []
    for eq in prog:
        for n in walk(eq.expr):
            if isinstance(n, Call) and n.fn not in out:
                out.append(n.fn)
    return out


# ---------------------------------------------------------------------------
# Reference semantics: direct interpreter of the AST


class Env:
    """Series access + function table for the interpreter."""

    def __init__(self, series: Dict[str, Any], t: Any, funcs: Dict[str, Callable], strict_L: Optional[int] = None) -> None:
        self.series = series
        self.t = t
        self.funcs = funcs
        self.strict_L = strict_L  # concrete replay: positions are checked against the span, never wrapped

    def _idx(self, v: Var) -> Any:
        if self.strict_L is None:
            return self.t + v.off if v.off else self.t
        L = self.strict_L
        p = (self.t if self.t >= 0 else self.t + L) + v.off
        if not 0 <= p < L:
            raise IndexError(f'{v.name}[t{v.off:+d}] is outside the span')
        return p

    def read(self, v: Var) -> Any:
        return self.series[v.name][self._idx(v)]

    def write(self, v: Var, value: Any) -> None:
        self.series[v.name][self._idx(v)] = value


def _num(text: str) -> Any:
    return float(text) if ('.' in text or 'e' in text.lower()) else int(text)


def interp(e: Any, env: Env) -> Any:
    if isinstance(e, Var):
        return env.read(e)
    if isinstance(e, Num):
        return _num(e.text)
    if isinstance(e, Verb):
        return interp(e.expr, env)
    if isinstance(e, Neg):
        return -interp(e.x, env)
    if isinstance(e, Not):
        return not interp(e.x, env)
    if isinstance(e, Bin):
        a = interp(e.l, env)
        b = interp(e.r, env)
        if e.op == '+':
            return a + b
        if e.op == '-':
            return a - b
        if e.op == '*':
            return a * b
        if e.op == '/':
            return a / b
        if e.op == '**':
            return a ** b
    if isinstance(e, Cmp):
        a = interp(e.l, env)
        b = interp(e.r, env)
        return {'<': lambda: a < b, '<=': lambda: a <= b, '>': lambda: a > b, '>=': lambda: a >= b,
                '==': lambda: a == b, '!=': lambda: a != b}[e.op]()
    if isinstance(e, BoolOp):
        if e.op == 'and':
            return interp(e.l, env) and interp(e.r, env)
        return interp(e.l, env) or interp(e.r, env)
    if isinstance(e, IfE):
        return interp(e.then, env) if interp(e.cond, env) else interp(e.other, env)
    if isinstance(e, Call):
        return env.funcs[e.fn](*[interp(a, env) for a in e.args])
    raise TypeError(e)


def evaluation_order(prog: Program) -> List[Eq]:
    """Equations in symbol-list order: by first appearance of their target's
    name anywhere in the script (C01: 'equations run in symbol-list order')."""
    first: List[str] = []
    for v, _ in mentions(prog):
        if v.name not in first:
            first.append(v.name)
    uniq: List[Eq] = []
    for eq in prog:
        if eq not in uniq:  # the same equation written twice is one equation
            uniq.append(eq)
    return sorted(uniq, key=lambda eq: first.index(eq.target.name))


def run_reference(prog: Program, env: Env) -> None:
    """One evaluation pass: equations in symbol-list order, each seeing earlier
    assignments (Gauss-Seidel)."""
    for eq in evaluation_order(prog):
        env.write(eq.target, interp(eq.expr, env))
