"""gram.driver -- fan programs out over a process pool and aggregate."""
from __future__ import annotations

from typing import Any, Callable, Dict, List, Optional

import vlib


def chunked(items: List[Any], n: int) -> List[List[Any]]:
    k = max(1, (len(items) + n - 1) // n)
    return [items[i:i + k] for i in range(0, len(items), k)]


class ChunkWorker:
    def __init__(self, worker: Callable[[Any], Dict[str, Any]], soft: Optional[set] = None) -> None:
        self.worker = worker
        self.soft = soft or set()

    def __call__(self, chunk: List[Any]) -> List[Dict[str, Any]]:
        out = []
        for item in chunk:
            g = vlib.guarded(self.worker)(item)
            if 'harness_error' in g and g['harness_error'].startswith('Inconclusive') and _key(item) in self.soft:
                # a SAMPLED program (beyond the exhaustive bound) whose exploration or a query ran out of budget is
                # skipped and counted; it is not part of the exhaustive claim and never counts as held
                g = {'status': 'sampled_over_budget', 'prog': str(item[0])[:160], 'layout': '', 'bad': [], 'paths': 0, 'stats': {},
                     'kind': item[0] if isinstance(item[0], str) else 'program', 'item': str(item)[:160], 'assumptions': [],
                     'exhausted': True, 'why': g['harness_error'][:120]}
            out.append(g)
        return out


def _key(item) -> str:
    if isinstance(item, tuple) and item and isinstance(item[0], str):
        return repr((item[0], item[1]))   # (kind, payload) items
    return repr(item[0]) if isinstance(item, tuple) else repr(item)


def run_items(worker: Callable[[Any], Dict[str, Any]], items: List[Any], soft_items: Optional[List[Any]] = None) -> List[Dict[str, Any]]:
    # spread expensive neighbours (enumeration order groups similar programs) over the workers
    import random
    order = list(range(len(items)))
    random.Random(12345).shuffle(order)
    shuffled = [items[i] for i in order]
    chunks = chunked(shuffled, vlib.ncpu() * 8)
    soft = {repr(p) for p in (soft_items or [])}   # keys as produced by _key()
    res = vlib.pmap(ChunkWorker(worker, soft), chunks)
    flat = [r for ch in res for r in ch]
    out: List[Any] = [None] * len(items)
    for pos, i in enumerate(order):
        out[i] = flat[pos]
    return out


def add_stats(tot: Dict[str, Any], st: Dict[str, Any]) -> None:
    tot['paths'] = tot.get('paths', 0) + st.get('paths', 0)
    tot['decisions'] = tot.get('decisions', 0) + st.get('decisions', 0)
    q = st.get('queries', {})
    for k in ('sat', 'unsat', 'unknown'):
        tot[k] = tot.get(k, 0) + q.get(k, 0) + st.get(k, 0)
    tot['solver_s'] = tot.get('solver_s', 0.0) + st.get('solver_s', 0.0)
