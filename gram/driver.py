"""gram.driver -- fan programs out over a process pool and aggregate."""
from __future__ import annotations

from typing import Any, Callable, Dict, List

import vlib


def chunked(items: List[Any], n: int) -> List[List[Any]]:
    k = max(1, (len(items) + n - 1) // n)
    return [items[i:i + k] for i in range(0, len(items), k)]


class ChunkWorker:
    def __init__(self, worker: Callable[[Any], Dict[str, Any]]) -> None:
        self.worker = worker

    def __call__(self, chunk: List[Any]) -> List[Dict[str, Any]]:
        out = []
        for item in chunk:
            g = vlib.guarded(self.worker)(item)
            out.append(g)
        return out


def run_items(worker: Callable[[Any], Dict[str, Any]], items: List[Any]) -> List[Dict[str, Any]]:
    # spread expensive neighbours (enumeration order groups similar programs) over the workers
    import random
    order = list(range(len(items)))
    random.Random(12345).shuffle(order)
    shuffled = [items[i] for i in order]
    chunks = chunked(shuffled, vlib.ncpu() * 8)
    res = vlib.pmap(ChunkWorker(worker), chunks)
    flat = [r for ch in res for r in ch]
    out: List[Any] = [None] * len(items)
    for pos, i in enumerate(order):
        out[i] = flat[pos]
    return out


def add_stats(tot: Dict[str, Any], st: Dict[str, Any]) -> None:
    tot['paths'] = tot.get('paths', 0) + st.get('paths', 0)
    tot['decisions'] = tot.get('decisions', 0) + st.get('decisions', 0)
    q = st.get('queries', {})
    for k in ('sat', 'unsat', 'unknown'):
        tot[k] = tot.get(k, 0) + q.get(k, 0) + st.get(k, 0)
    tot['solver_s'] = tot.get('solver_s', 0.0) + st.get('solver_s', 0.0)
